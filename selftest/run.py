#!/usr/bin/env python3
"""Validates the monitors against property-breaking patches (DESIGN 2.6).

For every entry of selftest/expect.json: copy /repo to a scratch directory under
/tmp, apply the patch, point the check at the copy (LWVERIF_REPO) with evidence
and replays redirected (LWVERIF_OUT), and require exit 1 with a VIOLATION line.
Scratch copies are removed afterwards. Nothing here is referenced by MANIFEST.json.

usage: selftest/run.py [--tests] [--budget S] [name-substring ...]
"""
import json
import os
import shutil
import subprocess
import sys
import tempfile
from pathlib import Path

HERE = Path(__file__).resolve().parent
ROOT = HERE.parent


def main():
    args = sys.argv[1:]
    run_tests = "--tests" in args
    budget = "8"
    if "--budget" in args:
        budget = args[args.index("--budget") + 1]
        args.remove(budget)
    names = [a for a in args if not a.startswith("--")]
    expect = json.loads((HERE / "expect.json").read_text())
    results = []
    for entry in expect:
        patch = Path(entry["patch"])
        if not patch.is_absolute():
            patch = ROOT / patch
        if names and not any(n in str(patch) for n in names):
            continue
        if entry.get("stale"):
            # written against an earlier state of /repo: the lines it edits were changed by later fix commits
            print(("skipped (stale)", str(entry["patch"])), flush=True)
            continue
        scratch = Path(tempfile.mkdtemp(prefix="lwv_st_"))
        try:
            repo = scratch / "repo"
            subprocess.run(["rsync", "-a", "--exclude", ".git", "--exclude", "__pycache__", "/repo/", str(repo)], check=True)
            r = subprocess.run(["patch", "-p1", "-s", "-i", str(patch)], cwd=repo, capture_output=True, text=True)
            if r.returncode != 0:
                results.append((str(patch.relative_to(ROOT)) if str(patch).startswith(str(ROOT)) else patch.name, "PATCH-FAILED", r.stdout[-300:] + r.stderr[-300:]))
                continue
            tests = ""
            if run_tests:
                t = subprocess.run(["/venv/bin/python", "-m", "pytest", "-q", "-p", "no:cacheprovider", "-n", "14", "-x",
                                    "--rootdir", str(repo), str(repo / "tests")], cwd=repo, capture_output=True, text=True,
                                   env={**os.environ, "PYTHONPATH": str(repo)})
                tests = " tests:" + (t.stdout.strip().splitlines()[-1][:60] if t.stdout.strip() else "?")
            for prop in entry["caught_by"]:
                env = dict(os.environ, LWVERIF_REPO=str(repo), LWVERIF_OUT=str(scratch / "out"), LWVERIF_BUDGET=budget)
                p = subprocess.run(["/venv/bin/python", "-m", "lwverif", "run", prop, "--tier", "quick"], cwd=ROOT,
                                   env=env, capture_output=True, text=True)
                viol = [l for l in p.stdout.splitlines() if l.startswith("VIOLATION")]
                mech = [l.split("mechanism=")[1].split(")")[0] for l in p.stdout.splitlines() if "mechanism=" in l]
                ok = p.returncode == 1 and viol
                results.append((str(patch.relative_to(ROOT)) if str(patch).startswith(str(ROOT)) else patch.name, f"{prop}: {'CAUGHT' if ok else 'MISSED rc=%d' % p.returncode}{tests}",
                                ",".join(sorted(set(mech)))[:160]))
                print(results[-1], flush=True)
        finally:
            shutil.rmtree(scratch, ignore_errors=True)
    missed = [r for r in results if "CAUGHT" not in r[1]]
    print(f"\n{len(results) - len(missed)} caught, {len(missed)} not caught")
    for r in missed:
        print("  NOT CAUGHT:", r)
    return 1 if missed else 0


if __name__ == "__main__":
    sys.exit(main())
