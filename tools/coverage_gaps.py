#!/usr/bin/env python3
"""Reads evidence/*.json and prints, per anchored source file, the executable lines that *no* check anchored in that
file reached (intersection of the per-check not_reached lists). A reading aid for widening workloads - it decides
nothing. usage: tools/coverage_gaps.py [--all]   (--all also prints raise/message lines)"""
import glob
import json
import os
import sys

ROOT = os.path.dirname(os.path.dirname(os.path.abspath(__file__)))
REPO = os.environ.get("LWVERIF_REPO", "/repo")
gaps: dict = {}
who: dict = {}
for f in sorted(glob.glob(os.path.join(ROOT, "evidence", "C*.json"))):
    e = json.load(open(f))
    for fn, d in (e["coverage"].get("anchored_code_reached") or {}).items():
        nr = set(d.get("not_reached", []))
        gaps[fn] = nr if fn not in gaps else gaps[fn] & nr
        who.setdefault(fn, []).append(e["property_id"])
for fn in sorted(gaps):
    src = open(os.path.join(REPO, fn)).read().splitlines()
    lines = []
    for l in sorted(gaps[fn]):
        t = src[l - 1].strip()
        if "--all" not in sys.argv and (t.startswith(("raise", '"', "'", "msg", 'f"', ")")) or "Error(" in t):
            continue
        lines.append(f"  {l:4d}: {t[:120]}")
    if lines:
        print(f"== {fn}  (anchors of {', '.join(who[fn])})")
        print("\n".join(lines))
