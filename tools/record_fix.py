#!/usr/bin/env python3
"""tools/record_fix.py <commit> <property> <mechanism> <slug> "<what failed>" [CNN ...]
Records a repaired defect: a 'fixed:' entry in known_findings.json (a record only - nothing is suppressed), the revert of the
fix commit as a self-test mutant, and the checks that must catch that revert in selftest/expect.json."""
import json
import subprocess
import sys
from pathlib import Path

ROOT = Path(__file__).resolve().parent.parent
commit, prop, mech, slug, what = sys.argv[1:6]
caught = sys.argv[6:] or [prop]
h = subprocess.run(["git", "-C", "/repo", "log", "--format=%h", "-1", commit], capture_output=True, text=True).stdout.strip()
diff = subprocess.run(["git", "-C", "/repo", "diff", h, h + "~1"], capture_output=True, text=True).stdout
name = f"selftest/mutants/revert_{h}_{slug}.diff"
(ROOT / name).write_text(diff)
k = json.loads((ROOT / "known_findings.json").read_text())
k["findings"].append({"property": prop, "status": "fixed", "mechanism": mech, "commit": h,
                      "description": f"fixed: property={prop} {h} {what}"})
(ROOT / "known_findings.json").write_text(json.dumps(k, indent=1))
e = json.loads((ROOT / "selftest" / "expect.json").read_text())
e.append({"patch": name, "caught_by": caught, "kind": f"revert of fix commit {h}"})
(ROOT / "selftest" / "expect.json").write_text(json.dumps(e, indent=1))
print("recorded", h, name)
