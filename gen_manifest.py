#!/usr/bin/env python3
"""Regenerates MANIFEST.json from the table below (keeps it valid at all times)."""
import json

PY = "/venv/bin/python"
CHECKS = {}


def check(pid, technique, text, note, ref):
    CHECKS[pid] = {
        "property_id": pid,
        "quick_cmd": f"{PY} -m lwverif run {pid} --tier quick",
        "thorough_cmd": f"{PY} -m lwverif run {pid} --tier thorough",
        "evidence_file": f"/verif/evidence/{pid}.json",
        "replay_cmd_template": f"{PY} -m lwverif replay {{path}}",
        "engine": "lwverif",
        "level_claimed": {"category": "exploration", "text": text, "design_ref": ref},
        "level_note": note,
        "technique": technique,
    }


check("C01", "runtime monitoring: API-boundary wrappers advance a wire-labelled shadow model; "
      "post-condition monitor on Circuit.U/U_full (ordered product, unitarity, loss-mode count) "
      "over seeded random construction programs",
      "Held on the construction programs explored (tens of thousands per quick run): U/U_full agree "
      "with the ordered product of documented component matrices, U_full unitary, one extra mode per "
      "loss element. Exploration only - says nothing about programs not generated.",
      "Trusted: the shadow model and own permanent in /verif/lwverif (written from the documented "
      "component matrices), numpy; tolerance 1e-9.", "DESIGN.md 4 C01")

check("C02", "runtime monitoring: history + executable wire model; depth-0 wrappers on every Circuit mutator advance "
      "a shadow, compared with the implementation's heralded amplitudes and frame at quiescent points, over "
      "seeded random circuit trees",
      "Held on the circuit trees explored (all behavioural buckets of add() reached, incl. existing ancilla inside "
      "the span x herald in!=out): n_modes, input_modes, herald photons and heralded amplitudes (<=2-3 visible "
      "photons) agree with the wire model. Exploration only.",
      "Trusted: wire model + own permanent; amplitudes compared with loss modes in vacuum, visible photon number "
      "bounded; tolerance 1e-8.", "DESIGN.md 4 C02")

check("C03", "runtime monitoring: post-condition and exception-path monitor on Simulator.simulate against an own "
      "Glynn-permanent Fock-space reference, over seeded random heralded/lossy circuits, bunched inputs and hostile arguments",
      "Held on the simulate() calls observed: every returned amplitude equals the reference, lossless herald-free rows "
      "are unit vectors, outputs=None yields the Fock basis once, and every documented kind of invalid argument raised.",
      "Trusted: own permanent and herald insertion in /verif/lwverif; the circuit's own U_full/heralds are taken as given "
      "(C01/C02 decide those); tolerance 1e-9; permanent-based reference up to 7 photons incl. heralds, above that (8-21 "
      "photons bunched on 2-3 modes) an own polynomial-expansion reference, tolerance growing to 1e-5.", "DESIGN.md 4 C03")
check("C04", "runtime monitoring: post-condition monitors on Backend.full_probability_distribution and the "
      "Sampler.probability_distribution getter against an own loss-summed Fock reference, plus a cross-backend "
      "comparison in the driver, over seeded random lossy/heralded circuits",
      "Held on the distributions observed: non-negative, no pattern with more photons than injected, equal to the "
      "loss-summed reference and normalised up to the documented 1e-9 per-state truncation, permanent == slos.",
      "Trusted: own permanent / polynomial expansion; allowance 1e-9 x (number of full output patterns); <=5-6 photons on <=14 "
      "modes incl. loss, and 8-26 photons on 2-3 modes (slos alone above 14 photons).",
      "DESIGN.md 4 C04")

check("C05", "runtime monitoring: results of Simulator/Sampler/Analyzer/QuickSampler recorded at the API boundary for the "
      "same configuration and judged by a relation checker (analyzer=sampler on heralded outputs, performance, "
      "error rate, quick sampler = conditioned+renormalised sampler, |amp|^2 = probability, consistent refusals)",
      "Held on the configurations explored (heralds with photons, in!=out heralds, loss, rule-set and predicate "
      "post-selection, both detector modes): all stated relations hold to 1e-7 and no object refused a configuration "
      "the others accept.",
      "Trusted: the relation arithmetic in /verif/lwverif/checks/c05.py; the sampler's own distribution is the common "
      "reference (C04 decides its correctness); <=5 photons incl. heralds.", "DESIGN.md 4 C05")

check("C06", "runtime monitoring: post-condition monitors on Source._build_statistics and on Sampler.probability_distribution "
      "with a non-ideal source against an independent generative emission model + own permanent; derived monitors for "
      "g2, HOM visibility, perfect settings and classical limit",
      "Held on the (brightness, purity, indistinguishability, threshold, input, circuit, backend) cases explored: input "
      "statistics are a normalised distribution over label partitions equal to the reference, output distributions "
      "equal the mixture of convolved per-group boson-sampling distributions, g2 = 1 - purity, HOM visibility = "
      "indistinguishability, perfect settings = ideal source, zero indistinguishability = classical particles.",
      "Trusted: the generative model in /verif/lwverif/srcref.py (structure differs from the implementation's "
      "coefficient table) and own permanent; <=4 injected photons, <=10 modes incl. loss.", "DESIGN.md 4 C06")

check("C07", "runtime monitoring: per-sample safety post-conditions on the five sampling methods, per-event invariants and "
      "conditional histograms on Detector._get_output, and exact binomial conformance tests of recorded counts against "
      "the exact detector-model push-forward of the implementation's own distribution",
      "Held on the configurations explored: every returned state respects post-selection, min_detection, detector mode "
      "and herald removal (known finding: Sampler.sample on heralded circuits), N-outputs methods return exactly N, "
      "same seed reproduces, and counts/accepted fractions/detector histograms conform to the exact distribution "
      "(per-test alpha 1e-15). Convergence is restated as finite-sample conformance.",
      "Trusted: detector reference in /verif/lwverif/detref.py, scipy binomial tails; base distribution taken from the "
      "implementation (C04/C06).", "DESIGN.md 4 C07")

check("C11", "runtime monitoring: fresh-twin oracle as an online monitor on every distribution read and sampling call of "
      "long-lived Sampler/QuickSampler objects (twin built from current public settings, same seed / saved random "
      "state), plus a post-condition on Analyzer.analyze, driven by random reconfiguration histories",
      "Held on the histories explored (every attribute kind changed between observations, sampling before any read, "
      "circuit replaced by one with equal U_full and other heralds, PostSelection mutated in place): reads and seeded "
      "samples equal those of a fresh object; analysis results carry only what the call computed.",
      "Trusted: a freshly constructed object of the same implementation is the reference (history-independence is "
      "what is decided, not absolute correctness - that is C04-C07).", "DESIGN.md 4 C11")

check("C08", "runtime monitoring: argument-immutability wrapper (fingerprint before / after return / after raise) on every public "
      "entry point, reject-atomicity monitor on the Circuit mutators, parent-stability through the shadow model, and a "
      "quiescent-point invariant on the library's shared module-level gate instances",
      "Held on the histories explored: no Circuit/State/Parameter/PostSelection/array argument changed across add, +, copy, "
      "simulate, sample*, analyze, Reck.map, Display, tomography, converter; parents stayed put when a reused child was "
      "edited; every listed kind of invalid construction call raised and left the circuit exactly as it was.",
      "Trusted: fingerprint definition (n_modes, heralds, internal modes, component digest, U_full to 1e-12).",
      "DESIGN.md 4 C08")

check("C09", "runtime monitoring: post-condition wrappers on unpack_groups/compress_mode_swaps/remove_non_adjacent_bs/copy/"
      "copy(freeze) (U_full entry-wise, heralds, input size, structural predicates), shadow agreement after rewrites, "
      "behavioural-independence probes, over seeded random circuits and rewrite sequences",
      "Held on the circuits and rewrite sequences explored: every rewrite left U_full, heralds, input size and the "
      "heralded amplitudes unchanged; no group / non-adjacent beam splitter (also inside groups) remained; swap "
      "compression never grew the component list; editing copy or original never moved the other.",
      "Trusted: shadow model + fingerprints; U_full compared entry-wise to 1e-9.", "DESIGN.md 4 C09")

check("C10", "runtime monitoring: class invariant on Parameter (icontract), exception-path wrappers on set/min_bound/max_bound/"
      "ParameterDict.__setitem__, post-condition on get_all_params against the shadow's parameter set, late-bound shadow "
      "comparison on every U read (live, frozen, invalid values), over seeded stateful histories",
      "Held on the histories explored: bounds invariant after every accepted or rejected update, rejected updates change "
      "nothing, U always reflects current values (also inside nested groups and shared parameters), frozen copies keep "
      "their values and list no parameters, each parameter listed exactly once, invalid reflectivity/loss/phase values "
      "surface as CircuitCompilationError.",
      "Trusted: shadow model with parameters held by reference; icontract 2.7.3 (falls back to equivalent hand-written "
      "wrappers if it cannot be imported).", "DESIGN.md 4 C10")

check("C13", "runtime monitoring: post-condition on every qubit-gate constructor (dual-rail amplitude matrix from U_full + heralds "
      "with own permanent vs textbook matrix, squared scalar, leakage of heralded gates); discrete part enumerated "
      "completely, angles sampled",
      "Held on all 21 gate classes, all target options, all 360 SWAP mode tuples within 6 modes, 64 grid angles and "
      "thousands of random angles per rotation gate: each is one scalar times the named matrix with |c|^2 = 1, 1/9, 1/16, "
      "1/72 as stated; heralded gates have no accepted output outside the qubit subspace.",
      "Trusted: textbook matrices in /verif/lwverif/qubitref.py, own permanent; exhaustive only over the discrete part.",
      "DESIGN.md 4 C13")

check("C17", "runtime monitoring: post-conditions on SimulationResult/SamplingResult construction and on the threshold/parity "
      "mappings of both containers (image keys, merged weights, per-input totals, refusal for amplitudes), over seeded "
      "random result contents with colliding images and repeated application",
      "Held on the contents explored: pair / nested / array indexing agree in list order, sampling results return their "
      "counts, mappings send each output to its per-mode image, add coinciding weights, keep per-input totals and inputs, "
      "and are refused for amplitude-valued results.",
      "Trusted: the per-mode image functions written in the check; totals to 1e-12 relative.", "DESIGN.md 4 C17")
check("C18", "runtime monitoring: creation-time snapshot table for every State/AnnotatedState re-verified after the workload "
      "mutates every value the API returned; law checkers for ==/hash/+/merge/slices/counts, herald insert/remove "
      "round trip, dB<->decimal, seeded random unitaries/permutations",
      "Held on the operations explored: no state changed through its API, equality iff occupations match with equal "
      "hashes, + concatenates, merge adds mode-wise, slices are states, label order irrelevant, remove(add(s,h)) = s for "
      "any key order and positions, unit conversions invert each other, seeded random matrices valid and reproducible.",
      "Trusted: law definitions in the check; lists passed by the caller to a constructor are outside 'through the API'.",
      "DESIGN.md 4 C18")

check("C19", "runtime monitoring: post-condition and exception-path wrapper on Display (rebound in every namespace) - drawable "
      "result, unchanged circuit fingerprint, DisplayError for invalid options - over seeded random circuit trees x both "
      "back-ends x option tuples",
      "Held on the circuits and option tuples explored (hidden ancillas, heralded groups, swaps and beam splitters across "
      "ancillas, split unitary blocks, loss, barriers, labelled parameters, 1-mode circuits): both back-ends returned a "
      "drawing, the circuit was unchanged, wrong-length labels and unknown display types raised DisplayError.",
      "Trusted: 'drawable' = serialisable drawsvg.Drawing / (Figure, Axes); pixel content is not judged.",
      "DESIGN.md 4 C19")

check("C14", "runtime monitoring: post-condition wrapper on Reck.map (unitary reproduced, adjacency and component kinds, heralds, "
      "phases in [0,2pi), same-seed re-run, sub-unitarity) and on every draw of the Constant/Gaussian/TopHat "
      "distributions, over seeded structured unitaries and error models",
      "Held on the unitaries (Haar, identity, permutations, phased permutations, block-diagonal, near-permutations, DFT, "
      "orthogonal, heralded) and error models explored: default model reproduces U to 1e-8 n with adjacent BS/PS only and "
      "phases in [0,2pi); noisy models draw within declared bounds, are seed-reproducible and give valid sub-unitary "
      "circuits.",
      "Trusted: numpy linear algebra; both nulling branches of the decomposition observed via a hook on bs_matrix.",
      "DESIGN.md 4 C14")

check("C12", "runtime monitoring: post-condition on QiskitConverter.convert (dual-rail amplitude matrix of the returned circuit "
      "over outputs accepted by heralds and returned rules, own permanent, vs qiskit Operator; leakage), refusals "
      "recorded, over seeded random and structured qiskit circuits with both flag values",
      "Held on the conversions explored (incl. three-qubit gate followed by a two-qubit gate on two of its qubits, "
      "reversed non-adjacent cx, cascaded heralded gates): every returned circuit is one non-zero scalar times the qiskit "
      "unitary on the accepted outputs with no leakage; everything else was refused with ValueError.",
      "Trusted: qiskit.quantum_info.Operator, own permanent; conversions needing >8 (quick) / >10 (thorough) photons are "
      "skipped and counted; leakage outputs sampled for large cases.", "DESIGN.md 4 C12")

check("C15", "runtime monitoring: the experiment callback as monitor (records and identifies every requested circuit as base + "
      "basis change for exactly one setting, answers with exact frequencies from the own Fock reference), post-condition "
      "on StateTomography.process, base-circuit fingerprint",
      "Held on the base circuits explored (n=1..3, complex non-symmetric and entangled states, post-selected and heralded "
      "gates, private ancillas, heralds declared directly on the base circuit): one circuit per setting, each the base "
      "followed by the basis changes; rho Hermitian, unit trace, equal to |psi><psi| to 1e-8, fidelity 1; base unchanged.",
      "Trusted: own permanent for exact frequencies and for the prepared state; input |0..0> dual-rail.", "DESIGN.md 4 C15")
check("C16", "runtime monitoring: exact-frequency experiment callback + post-conditions on LIProcessTomography.process, "
      "MLEProcessTomography.process and GateFidelity.process against choi_from_unitary(V) / the average-gate-fidelity "
      "formula, with V taken from the base circuit's own dual-rail amplitudes",
      "Held on the one- and two-qubit unitaries explored (complex, non-symmetric, entangling, with directly declared "
      "heralds): LI Choi equals choi_from_unitary(V) to 1e-8 with fidelity 1, MLE Choi positive, trace preserving to "
      "1e-3 and fidelity >= 0.99, gate fidelity 1 for V and the formula value for Haar / V^T / V* targets.",
      "Trusted: own permanent; the library's choi_from_unitary is the stated reference.", "DESIGN.md 4 C16")

NOT_APPLICABLE = []
_EXPLICIT_NA = {}
for line in open("/verif/properties.jsonl"):
    pid = json.loads(line)["id"]
    if pid not in CHECKS:
        NOT_APPLICABLE.append({"property_id": pid, "reason": _EXPLICIT_NA.get(
            pid, "not claimed in this revision: the runtime monitor for it is designed (DESIGN.md section 4) but not built yet")})

manifest = {
    "version": 1,
    "setup_cmd": "(/venv/bin/pip install -q --no-index --find-links /opt/veriftools/wheels --target /verif/.deps icontract deal || true) && /venv/bin/python -m compileall -q /verif/lwverif >/dev/null && /venv/bin/python -m lwverif.selfcheck",
    "hooks": {
        "guard": "LIGHTWORKS_VERIF",
        "enable": "no source hooks: monitors are attached from outside by lwverif (class patching + import hook) when the checks run; LIGHTWORKS_VERIF=1 is exported by the runner for completeness",
        "baseline_off_cmd": "cd /repo && /venv/bin/python -m pytest -ra -q -p no:cacheprovider --timeout=900 --continue-on-collection-errors",
        "source_commits": [],
        "add_only": True,
    },
    "engines": [{"name": "lwverif", "path": "/verif/lwverif", "serves_properties": sorted(CHECKS),
                 "kind_free_text": "runtime monitors (API-boundary wrappers, shadow reference models, post-condition and "
                                   "history checkers) driven by seeded hostile workloads in sharded worker subprocesses"}],
    "checks": [CHECKS[k] for k in sorted(CHECKS)],
    "not_applicable": NOT_APPLICABLE,
    "notes": "See DESIGN.md. known_findings.json lists recorded findings and fix commits.",
}
json.dump(manifest, open("/verif/MANIFEST.json", "w"), indent=1)
print("wrote MANIFEST.json with", len(CHECKS), "checks")
