"""Fresh-twin monitor (C11): on every distribution read / sampling call of a
long-lived Sampler or QuickSampler, a twin object is built from the *current*
public settings and asked the same question with the same seed / the same saved
``random`` state; answers must be identical. Also a post-condition on
``Analyzer.analyze``: the result carries only quantities computed by that call."""
from __future__ import annotations

import functools
import random as pyrandom

from .circmon import STATS, report

_installed = False
_busy = False


def _dist_equal(a, b, tol=1e-12):
    ka = {tuple(s): p for s, p in a.items()}
    kb = {tuple(s): p for s, p in b.items()}
    if set(ka) != set(kb):
        return False, f"support differs ({len(ka)} vs {len(kb)} states)"
    worst = max((abs(ka[q] - kb[q]) for q in ka), default=0.0)
    return worst <= tol, f"max difference {worst:.3g}"


def settings_of(obj):
    c = obj.circuit
    d = {"type": type(obj).__name__, "n_modes": c.n_modes, "heralds": c.heralds,
         "input": list(obj.input_state)}
    if type(obj).__name__ == "Sampler":
        s, t = obj.source, obj.detector
        d.update(backend=obj.backend.backend, source=[s.purity, s.brightness, s.indistinguishability,
                                                      s.probability_threshold],
                 detector=[t.efficiency, t.p_dark, t.photon_counting])
    else:
        d.update(photon_counting=obj.photon_counting)
        ps = obj.post_select
        if hasattr(ps, "rules"):
            d["rules"] = [r.as_tuple() for r in ps.rules]
    return d


def install():
    global _installed
    if _installed:
        return
    import lightworks as lw
    emu = lw.emulator

    def twin_of(obj):
        if type(obj).__name__ == "Sampler":
            s, t = obj.source, obj.detector
            return emu.Sampler(
                obj.circuit, obj.input_state,
                source=emu.Source(purity=s.purity, brightness=s.brightness,
                                  indistinguishability=s.indistinguishability,
                                  probability_threshold=s.probability_threshold),
                detector=emu.Detector(efficiency=t.efficiency, p_dark=t.p_dark,
                                      photon_counting=t.photon_counting),
                backend=obj.backend.backend)
        return emu.QuickSampler(obj.circuit, obj.input_state, photon_counting=obj.photon_counting,
                                post_select=obj.post_select)

    def guarded(fn):
        @functools.wraps(fn)
        def w(self, *a, **k):
            global _busy
            if _busy:
                return fn.__wrapped_orig__(self, *a, **k)
            return fn(self, *a, **k)
        return w

    # ---- distribution getters
    def wrap_getter(cls):
        prop = cls.__dict__["probability_distribution"]
        orig = prop.fget

        def get(self):
            global _busy
            if _busy:
                return orig(self)
            try:
                res = orig(self)
                err = None
            except Exception as e:  # noqa: BLE001
                res, err = None, e
            _busy = True
            try:
                st = pyrandom.getstate()
                try:
                    tw = twin_of(self)
                    tres = tw.probability_distribution
                    terr = None
                except Exception as e:  # noqa: BLE001
                    tres, terr = None, e
                pyrandom.setstate(st)
            finally:
                _busy = False
            STATS["twin_distribution_reads"] += 1
            if err is None and terr is None:
                ok, why = _dist_equal(res, tres)
                if not ok:
                    report("C11", f"{cls.__name__}.probability_distribution differs from a freshly created object with "
                                  f"the same settings: {why}", monitor="fresh-twin (distribution)",
                           mechanism="stale_distribution:" + cls.__name__, witness=settings_of(self))
            elif (err is None) != (terr is None):
                report("C11", f"{cls.__name__}.probability_distribution: long-lived object "
                              f"{'raised ' + type(err).__name__ if err else 'returned'}, fresh twin "
                              f"{'raised ' + type(terr).__name__ if terr else 'returned'}",
                       monitor="fresh-twin (distribution)", mechanism="twin_outcome_differs:" + cls.__name__,
                       witness=settings_of(self) if err is None else None)
            if err is not None:
                raise err
            return res

        setattr(cls, "probability_distribution", property(get, doc=prop.__doc__))

    wrap_getter(emu.Sampler)
    wrap_getter(emu.QuickSampler)

    # ---- sampling calls
    def wrap_sampler(cls, name, seeded):
        orig = getattr(cls, name)

        @functools.wraps(orig)
        def w(self, *a, **k):
            global _busy
            if _busy:
                return orig(self, *a, **k)
            seed = None
            if seeded:
                seed = k.get("seed", a[{"Sampler": 3, "QuickSampler": 1}[cls.__name__]]
                             if len(a) > {"Sampler": 3, "QuickSampler": 1}[cls.__name__] else None)
            st0 = pyrandom.getstate()
            try:
                res = orig(self, *a, **k)
                err = None
            except Exception as e:  # noqa: BLE001
                res, err = None, e
            if seeded and seed is None:
                if err is not None:
                    raise err
                return res
            st1 = pyrandom.getstate()
            _busy = True
            try:
                pyrandom.setstate(st0)
                try:
                    tw = twin_of(self)
                    tw.probability_distribution  # noqa: B018  (a fresh user would be allowed to read it first)
                    tres = getattr(tw, name)(*a, **k)
                    terr = None
                except Exception as e:  # noqa: BLE001
                    tres, terr = None, e
            finally:
                pyrandom.setstate(st1)
                _busy = False
            STATS["twin_sampling_calls"] += 1
            STATS["twin_sampling_calls:" + cls.__name__ + "." + name] += 1
            if err is None and terr is None:
                same = (res == tres) if not seeded else (dict(res) == dict(tres))
                if not same:
                    report("C11", f"{cls.__name__}.{name} returned something a freshly created object with the same "
                                  f"settings and the same seed/random state does not", monitor="fresh-twin (sampling)",
                           mechanism="stale_sampling:" + cls.__name__ + "." + name, witness=settings_of(self))
            elif err is not None and terr is None:
                report("C11", f"{cls.__name__}.{name} raised {type(err).__name__}: {err} but works on a fresh object "
                              f"after reading the distribution", monitor="fresh-twin (sampling)",
                       mechanism="sampling_needs_prior_read:" + cls.__name__ + "." + name)
            elif err is None and terr is not None:
                report("C11", f"{cls.__name__}.{name} returned but a fresh twin raised {type(terr).__name__}: {terr}",
                       monitor="fresh-twin (sampling)", mechanism="twin_outcome_differs:" + cls.__name__ + "." + name,
                       witness=settings_of(self))
            if err is not None:
                raise err
            return res

        setattr(cls, name, w)

    wrap_sampler(emu.Sampler, "sample", False)
    wrap_sampler(emu.Sampler, "sample_N_inputs", True)
    wrap_sampler(emu.Sampler, "sample_N_outputs", True)
    wrap_sampler(emu.QuickSampler, "sample", False)
    wrap_sampler(emu.QuickSampler, "sample_N_outputs", True)

    # ---- Analyzer.analyze
    orig_an = emu.Analyzer.analyze

    @functools.wraps(orig_an)
    def analyze(self, inputs, expected=None):
        global _busy
        res = orig_an(self, inputs, expected)
        if _busy:
            return res
        STATS["analyze_postconditions"] += 1
        if expected is None and hasattr(res, "error_rate"):
            report("C11", "analysis result carries an error_rate although this call was given no expected mapping "
                          f"(error_rate={res.error_rate!r})", monitor="Analyzer.analyze post-condition",
                   mechanism="stale_error_rate")
        _busy = True
        try:
            tw = emu.Analyzer(self.circuit)
            tw.post_selection = self.post_selection
            tres = orig_an(tw, inputs, expected)
        except Exception:  # noqa: BLE001
            tres = None
        finally:
            _busy = False
        if tres is not None:
            import numpy as np
            if abs(tres.performance - res.performance) > 1e-12 or not np.allclose(tres.array, res.array, atol=1e-12):
                report("C11", "analysis result differs from a fresh Analyzer with the same settings",
                       monitor="fresh-twin (analyzer)", mechanism="stale_analysis")
            if expected is not None and abs(getattr(tres, "error_rate", 0) - getattr(res, "error_rate", 1)) > 1e-12:
                report("C11", "error_rate differs from a fresh Analyzer with the same settings",
                       monitor="fresh-twin (analyzer)", mechanism="stale_analysis")
        return res

    emu.Analyzer.analyze = analyze
    _installed = True
