"""C15 - state tomography reconstructs the prepared state.

The experiment callback *is* the monitor: it records every circuit it receives,
identifies which measurement setting each one implements (its dual-rail
transformation must equal (tensor of basis changes) x base for exactly one
setting, every required setting exactly once) and answers with exact
frequencies from the own Fock reference. A post-condition on
``StateTomography.process`` then checks Hermiticity, unit trace, equality with
the outer product of the dual-rail state vector and fidelity one; the C08
fingerprint of the base circuit must not move."""
from __future__ import annotations

import functools
from itertools import product

import numpy as np

from .. import circmon, qubitref as qr, tomoref
from ..gen import as_callback, equivalent_variant
from .common import drain_into, merge_stats, setup

PROPERTY = "C15"
RULE = ("seeded base circuits on 2n visible modes, n=1..3: random products of single-qubit rotations (complex, "
        "non-symmetric states), post-selected and heralded entangling gates, ancillas between qubit modes both as private "
        "ancillas of added sub-circuits and as heralds declared directly on the base circuit (before / between / after "
        "the qubit rails); callback results as dict or SamplingResult; distinct = (n, gate sequence, herald placement "
        "class); non-trivial = state with complex off-diagonals or entanglement or ancillas")
MANDATORY = ["nonzero_Y_expectation", "entangled_state", "direct_herald_not_last", "private_ancillas", "n1", "n2", "n3",
             "sampling_result_callback", "tomography_object_reused_after_edit", "base_presented_as:copy",
             "base_presented_as:frozen_copy", "base_presented_as:unpacked_copy", "experiment_without_qubit_post_selection",
             "data_outside_the_qubit_subspace_refused"]
DECIDING = ["callback_circuits_checked", "process_postconditions", "earlier_objects_rechecked",
            "rho_vs_independent_inversion"]
BUDGET = {"quick": 30, "thorough": 480}
ASSUMPTIONS = ["prepared state = base circuit applied to |0..0> in dual-rail encoding, conditioned on heralds and one "
               "photon per qubit", "tolerances: rho 1e-8, fidelity 1e-6, circuit identification 1e-8"]


def random_1q(lw, rng):
    q = lw.qubit
    r = rng.random()
    if r < 0.6:
        g = str(rng.choice(["Rx", "Ry", "Rz", "P"]))
        th = float(rng.uniform(-3.1, 3.1))
        return getattr(q, g)(th), [g, th]
    g = str(rng.choice(["H", "S", "T", "X", "Y", "SX", "Sadj"]))
    return getattr(q, g)(), [g]


def make_base(ctx, lw, rng, n):
    q = lw.qubit
    log: list = []
    direct = str(rng.choice(["none", "none", "direct_before", "direct_between", "direct_after", "direct_crossed"]))
    if direct == "direct_crossed" and n <= 2:
        return make_base_crossed(ctx, lw, rng, n)
    if direct == "none" or n == 3:
        base = lw.Circuit(2 * n)
        offs = list(range(0, 2 * n, 2))
        direct = "none"
    else:
        # heralds declared directly on the base circuit: an extra numbered mode carrying a vacuum herald,
        # coupled to nothing or weakly to a qubit rail
        pos = {"direct_before": 0, "direct_between": 2 if n == 2 else 1, "direct_after": 2 * n}[direct]
        base = lw.Circuit(2 * n + 1)
        offs = [m if m < pos else m + 1 for m in range(0, 2 * n, 2)]
        if direct == "direct_between" and n == 1:
            offs = [0]          # rails at 0 and 2 cannot host a 2-mode gate: use before instead
            pos, direct = 0, "direct_before"
            offs = [1]
    ent = False
    for _ in range(int(rng.integers(1, 6))):
        r = rng.random()
        if n >= 2 and r < 0.5:
            a = int(rng.integers(0, n - 1))
            g = str(rng.choice(["CZ", "CNOT", "CNOT0", "CZ_Heralded"])) if n == 2 else str(rng.choice(["CZ", "CNOT", "CNOT0"]))
            gate = {"CZ": q.CZ, "CNOT": q.CNOT, "CNOT0": lambda: q.CNOT(0), "CZ_Heralded": q.CZ_Heralded}[g]()
            if direct != "none":
                # the two-qubit gate needs 4 adjacent numbered modes
                span = offs[a + 1] + 1 - offs[a]
                if span != 4:
                    continue
            base.add(gate, offs[a])
            log.append([g, a])
            ent = True
        else:
            qi = int(rng.integers(n))
            gate, desc = random_1q(lw, rng)
            base.add(gate, offs[qi])
            log.append(desc + [qi])
    if direct != "none":
        base.herald(0, pos)
        log.append(["herald", 0, pos])
        if pos != 2 * n:
            ctx.bucket("direct_herald_not_last")
    return base, log, ent, direct, offs


def make_base_crossed(ctx, lw, rng, n):
    """A base circuit with 2-3 heralds declared directly on it, on numbered modes before and after the qubit rails, whose
    photons are routed (by a mode permutation) from their input modes to *other* herald modes - also onto each other's
    modes - and which carry different photon numbers, declared in random order."""
    q = lw.qubit
    h = int(rng.integers(2, 4))
    hb = int(rng.integers(0, h + 1))
    base = lw.Circuit(2 * n + h)
    log = [["circuit", 2 * n + h, "herald modes before", hb]]
    offs = [hb + 2 * i for i in range(n)]
    hmodes = list(range(hb)) + list(range(hb + 2 * n, 2 * n + h))
    ent = False
    for _ in range(int(rng.integers(1, 5))):
        if n == 2 and rng.random() < 0.5:
            g = str(rng.choice(["CZ", "CNOT", "CNOT0"]))
            base.add({"CZ": q.CZ, "CNOT": q.CNOT, "CNOT0": lambda: q.CNOT(0)}[g](), offs[0], bool(rng.random() < 0.5))
            log.append([g, 0])
            ent = True
        else:
            qi = int(rng.integers(n))
            gate, desc = random_1q(lw, rng)
            base.add(gate, offs[qi])
            log.append(desc + [qi])
    perm = [int(x) for x in rng.permutation(hmodes)]
    if perm == hmodes:
        perm = perm[1:] + perm[:1]
    base.mode_swaps({a: b for a, b in zip(hmodes, perm)})
    log.append(["swaps", dict(zip(hmodes, perm))])
    photons = [int(x) for x in rng.permutation([1, 0, 2 if rng.random() < 0.3 else 0][:h])]
    order = [int(x) for x in rng.permutation(len(hmodes))]
    for k in order:
        base.herald(photons[k], hmodes[k], perm[k])
        log.append(["herald", photons[k], hmodes[k], perm[k]])
    ctx.bucket("direct_heralds_routed_onto_each_other")
    if hb > 0:
        ctx.bucket("direct_herald_not_last")
    return base, log, ent, "direct_crossed", offs


def run(ctx):
    lw = setup(ctx, warm=False)
    rng = ctx.rng
    State = lw.State
    tomo = lw.tomography
    SamplingResult = lw.emulator.results.SamplingResult
    earlier: list = []
    while not ctx.out_of_time():
        n = int(rng.choice([1, 1, 2, 2, 2, 3])) if ctx.tier == "thorough" else int(rng.choice([1, 1, 2, 2, 2, 2, 3]))
        try:
            base, log, ent, direct, offs = make_base(ctx, lw, rng, n)
        except Exception as e:  # noqa: BLE001
            ctx.count("construction_raised:" + type(e).__name__)
            circmon.drain()
            continue
        circmon.drain()
        if base.input_modes != 2 * n:
            ctx.count("skipped_layout")
            continue
        try:
            base, variant = equivalent_variant(base, rng)
            if variant == "unpacked_copy":
                direct = "none" if not base.heralds["input"] else "direct_after_unpack"
        except Exception as e:  # noqa: BLE001
            ctx.count("variant_raised:" + type(e).__name__)
            continue
        ctx.bucket("base_presented_as:" + variant)
        circmon.drain()
        ctx.bucket("n%d" % n)
        if base._internal_modes:
            ctx.bucket("private_ancillas")
        m_base = tomoref.dual_rail_matrix(base, n)
        psi = m_base[:, 0]
        nrm = np.linalg.norm(psi)
        if nrm < 1e-6:
            ctx.count("skipped_zero_state")
            continue
        psi = psi / nrm
        rho_exp = np.outer(psi, psi.conj())
        y_exp = max(abs(np.real(np.trace(rho_exp @ tomoref.kron_all(
            [qr.textbook("Y") if j == i else np.eye(2) for j in range(n)])))) for i in range(n))
        if y_exp > 0.05:
            ctx.bucket("nonzero_Y_expectation")
        if n >= 2:
            # entangled iff the reduced state of qubit 0 is mixed
            r0 = np.trace(rho_exp.reshape(2, 2 ** (n - 1), 2, 2 ** (n - 1)), axis1=1, axis2=3)
            if 1 - np.real(np.trace(r0 @ r0)) > 0.05:
                ctx.bucket("entangled_state")
        as_result = bool(rng.random() < 0.4)
        if as_result:
            ctx.bucket("sampling_result_callback")
        case = {"n": n, "base": log, "direct_heralds": direct, "base_presented_as": variant,
                "callback_returns": "SamplingResult" if as_result else "dict"}
        fp = circmon.circuit_fingerprint(base, with_unitary=True)
        seen = {"settings": [], "problems": [], "data": {}}
        data_kind = str(rng.choice(["exact", "exact", "integer_counts", "unnormalised_floats", "numpy_integer_counts"]))
        case["data_kind"] = data_kind
        ctx.bucket("callback_data:" + data_kind)
        in_occ = [1, 0] * n

        xa = None if rng.random() < 0.5 else [None, [], [3], ["shots", {"a": 1}], [None], [0, 0.5, "x"]][int(rng.integers(6))]
        xa_seen: list = []

        scribble = [bool(rng.random() < 0.25)]
        unpost = False
        if data_kind == "exact" and rng.random() < (0.4 if n >= 2 else 0.1):
            unpost = str(rng.choice(["all_outputs", "coincidences"]))
            ctx.bucket("experiment_without_qubit_post_selection")
            case["experiment_reports"] = unpost

        def experiment(circuits, *extra):
            xa_seen.append(list(extra))
            out = []
            for c in circuits:
                ctx.count("callback_circuits_checked")
                try:
                    if c.input_modes != 2 * n:
                        seen["problems"].append(f"received circuit has {c.input_modes} visible modes")
                        out.append({State(in_occ): 1.0})
                        continue
                    m_c = tomoref.dual_rail_matrix(c, n)
                    match = []
                    for setting in product("XYZ", repeat=n):
                        want = tomoref.kron_all([tomoref.MEAS[s] for s in setting]) @ m_base
                        if np.max(np.abs(m_c - want)) <= 1e-8:
                            match.append("".join(setting))
                    seen["settings"].append(match)
                    probs = tomoref.dual_rail_probs(c, in_occ, State)
                    if unpost:
                        # an experiment that does not post-select on the qubit subspace (see C16): all outputs holding n
                        # photons, or only the n-fold coincidences among them
                        probs = tomoref.all_output_probs(c, in_occ, State)
                        if unpost == "coincidences":
                            probs = {k_: v_ for k_, v_ in probs.items() if max(k_.s, default=0) <= 1}
                        match = match + ["(not recorded)"]
                    if data_kind == "integer_counts":
                        big = int(rng.choice([1000, 10 ** 6, 12345]))
                        probs = {s_: int(round(p_ * big)) for s_, p_ in probs.items()}
                        if sum(probs.values()) == 0:
                            probs[State(in_occ)] = 1
                    elif data_kind == "numpy_integer_counts":
                        # counts as fixed-width numpy integers, each count in range, the total per setting beyond 2**31
                        ty_ = [np.int32, np.int64, np.uint32, np.uint16][int(rng.integers(4))]
                        big = {np.int32: 2_000_000_000, np.int64: 10 ** 12, np.uint32: 4_000_000_000, np.uint16: 60000}[ty_]
                        probs = {s_: ty_(int(round(p_ * big))) for s_, p_ in probs.items()}
                        if sum(int(v_) for v_ in probs.values()) == 0:
                            probs[State(in_occ)] = ty_(1)
                    elif data_kind == "unnormalised_floats":
                        scale_ = float(rng.choice([1e-3, 7.5, 1e6, 2e-9, 1e-13, 1e12]))
                        probs = {s_: p_ * scale_ for s_, p_ in probs.items()}
                    if len(match) == 1:
                        seen["data"][match[0]] = {tuple(1 if s_[2 * q] == 0 else 0 for q in range(n)): v_
                                                  for s_, v_ in probs.items()}
                except Exception as e:  # noqa: BLE001
                    seen["problems"].append(f"received circuit could not be evaluated: {type(e).__name__}: {e}")
                    probs = {State(in_occ): 1.0}
                out.append(SamplingResult(probs, State(in_occ)) if as_result else probs)
            if scribble[0] and isinstance(circuits, list) and len(circuits) > 1:
                circuits.append(circuits.pop(0))        # the list handed over is the callback's to reorder; its answers were
                if rng.random() < 0.3:                  # given in the order received
                    circuits.clear()
            return out

        try:
            cb, cb_form = as_callback(experiment, rng)
            ctx.bucket("callback_is_" + cb_form)
            case["callback_form"] = cb_form
            armed = {"on": bool(rng.random() < 0.1), "how": str(rng.choice(["raises", "too_few_results", "empty_results"]))}
            if armed["on"]:
                # an experiment that fails the first time (raises / returns unusable data); process() is then called again on
                # the same object with the experiment working
                good_cb = cb

                def cb(circuits, *a, _g=good_cb, **k):  # noqa: E306
                    if not armed["on"]:
                        return _g(circuits, *a, **k)
                    if armed["how"] == "raises":
                        raise RuntimeError("laboratory on fire")
                    res_ = _g(circuits, *a, **k)
                    seen["settings"].clear(); seen["data"].clear(); seen["problems"].clear()
                    return res_[:-1] if armed["how"] == "too_few_results" else [{} for _ in res_]
            if xa is None and rng.random() < 0.7:
                st = tomo.StateTomography(n, base, cb)
            else:
                ctx.bucket("experiment_args_given")
                st = tomo.StateTomography(n, base, cb, xa) if rng.random() < 0.5 else \
                    tomo.StateTomography(n, base, cb, experiment_args=xa)
            if armed["on"]:
                try:
                    st.process()
                    ctx.count("first_run_with_unusable_data_did_not_fail:" + armed["how"])
                except Exception as e_:  # noqa: BLE001
                    ctx.bucket("process_called_again_after_failed_run")
                    ctx.count("failed_first_run:" + armed["how"] + ":" + type(e_).__name__)
                armed["on"] = False
                seen["settings"].clear(); seen["data"].clear(); seen["problems"].clear()
            xa_seen.clear()
            rho = st.process()
            ctx.count("experiment_args_checked")
            if not xa_seen or any(x != list(xa or []) for x in xa_seen):
                ctx.violation(f"the experiment was called with extra arguments {xa_seen[:2]}, experiment_args was {xa!r}",
                              case=case, mechanism="experiment_args_not_passed_on", monitor="experiment callback")
            if scribble[0]:
                # ... and the same object asked again must give the same answer
                ctx.bucket("callback_reorders_the_list_it_was_given")
                rho_first = np.array(rho, copy=True)
                seen["settings"].clear(); seen["data"].clear(); seen["problems"].clear()
                rho = st.process()
                # (rounded integer counts are drawn with a fresh random scale on every call: only exact data is compared)
                if data_kind in ("exact", "unnormalised_floats") and float(np.max(np.abs(rho - rho_first))) > 1e-9:
                    ctx.violation(f"process() called again on the same object (after the experiment had reordered the list of "
                                  f"circuits it was given) returns a rho that differs by "
                                  f"{float(np.max(np.abs(rho - rho_first))):.3g}", case=case,
                                  mechanism="rho_changes_on_second_process_after_callback_reordered_list",
                                  monitor="StateTomography.process repeated")
            fid = st.fidelity(rho_exp)
            # "that matrix" as a user obtains it: the library's own density_from_state, vector given as list or array
            ctx.count("density_from_state_postconditions")
            vec_form = str(rng.choice(["list", "ndarray", "column"]))
            vec = {"list": [complex(x) for x in psi], "ndarray": np.array(psi), "column": np.array(psi)}[vec_form]
            rho_lib = np.asarray(lw.tomography.density_from_state(vec))
            if rho_lib.shape != rho_exp.shape or float(np.max(np.abs(rho_lib - rho_exp))) > 1e-12:
                ctx.violation(f"density_from_state({vec_form}) is not the outer product |psi><psi| of the vector it was given",
                              case=case, mechanism="density_from_state_value", monitor="density_from_state post-condition")
            elif data_kind == "exact" and abs(st.fidelity(rho_lib) - 1) > 1e-6:
                ctx.violation(f"fidelity against density_from_state(psi) is {st.fidelity(rho_lib):.9f}", case=case,
                              mechanism="rho_fidelity:density_from_state", monitor="StateTomography.process post-condition")
            # a fidelity worth the name is 0 against a state orthogonal to the prepared one (whatever its convention
            # for intermediate values - F or sqrt(F) - which the property does not fix)
            if data_kind == "exact":
                phi = rng.normal(size=len(psi)) + 1j * rng.normal(size=len(psi))
                phi = phi - psi * np.vdot(psi, phi)
                if np.linalg.norm(phi) > 1e-6:
                    phi = phi / np.linalg.norm(phi)
                    ctx.count("fidelity_against_orthogonal_state")
                    f0 = st.fidelity(np.outer(phi, phi.conj()))
                    if not abs(f0) <= 1e-3:
                        ctx.violation(f"fidelity against a state orthogonal to the prepared one is {f0:.6f}", case=case,
                                      mechanism="fidelity_orthogonal_state_not_zero",
                                      monitor="StateTomography.fidelity post-condition")
        except Exception as e:  # noqa: BLE001
            if unpost and isinstance(e, ValueError) and "invalid state" in str(e).lower():
                ctx.bucket("data_outside_the_qubit_subspace_refused")       # refused aloud: fine
                ctx.case((n, tuple(tuple(map(str, g)) for g in log), direct, "refused"), True)
                drain_into(ctx, case)
                continue
            ctx.violation(f"StateTomography raised {type(e).__name__}: {e}", case=case,
                          mechanism="state_tomography_raised:" + type(e).__name__ + ":" + direct, monitor="driver")
            ctx.case((n, tuple(tuple(map(str, g)) for g in log), direct), True)
            drain_into(ctx, case)
            continue
        ctx.count("process_postconditions")
        # earlier tomography objects must still report their own result
        for old_st, old_rho in earlier:
            ctx.count("earlier_objects_rechecked")
            if np.max(np.abs(old_st.rho - old_rho)) > 1e-12:
                ctx.violation("the rho reported by an earlier StateTomography object changed after a later object ran",
                              case=case, mechanism="earlier_object_changed", monitor="earlier-object re-read")
        mech_suffix = ":" + ("direct_heralds" if direct != "none" else "no_direct_heralds")
        # callback monitor: exactly one circuit per required setting, each = basis change after base
        required = sorted("".join(s) for s in product("XYZ", repeat=n))
        if len(seen["settings"]) != len(required):
            ctx.violation(f"callback received {len(seen['settings'])} circuits, {len(required)} settings required",
                          case=case, mechanism="callback_count" + mech_suffix, monitor="experiment callback")
        unmatched = [i for i, m in enumerate(seen["settings"]) if not m]
        if unmatched:
            ctx.violation(f"{len(unmatched)} of the received circuits are not 'base followed by single-qubit basis "
                          f"changes' for any measurement setting", case=case,
                          mechanism="callback_circuit_not_base_plus_basis_change" + mech_suffix,
                          monitor="experiment callback")
        else:
            # assign settings (a circuit may match several settings only if the state makes them coincide)
            got = sorted(m[0] for m in seen["settings"] if len(m) == 1)
            if all(len(m) == 1 for m in seen["settings"]) and got != required:
                ctx.violation(f"received settings {got} are not each required setting exactly once", case=case,
                              mechanism="callback_settings" + mech_suffix, monitor="experiment callback")
        for p in seen["problems"]:
            ctx.violation(p, case=case, mechanism="callback_problem" + mech_suffix, monitor="experiment callback")
        # post-condition on the reconstructed state
        if np.max(np.abs(rho - rho.conj().T)) > 1e-8:
            ctx.violation("rho is not Hermitian", case=case, mechanism="rho_hermitian" + mech_suffix,
                          monitor="StateTomography.process post-condition")
        if abs(np.trace(rho) - 1) > 1e-8:
            ctx.violation(f"trace(rho) = {np.trace(rho)}", case=case, mechanism="rho_trace" + mech_suffix,
                          monitor="StateTomography.process post-condition")
        if len(seen["data"]) == 3 ** n:
            ctx.count("rho_vs_independent_inversion")
            rho_li = tomoref.rho_from_counts(seen["data"], n)
            d_li = float(np.max(np.abs(rho - rho_li)))
            if d_li > 1e-9:
                ctx.violation(f"rho differs by {d_li:.3g} from an independent linear inversion of exactly the data the "
                              f"callback returned ({data_kind})", case=case, mechanism="rho_vs_data" + mech_suffix,
                              monitor="StateTomography.process post-condition (data-level)")
        d = float(np.max(np.abs(rho - rho_exp)))
        if data_kind != "exact" and d <= 1e-8:
            pass
        if data_kind in ("integer_counts", "numpy_integer_counts"):
            d = 0.0          # rounded counts do not reproduce |psi><psi| exactly; the data-level comparison above decides
        if d > 1e-8:
            ctx.violation(f"rho differs from |psi><psi| by {d:.3g} (fidelity {fid:.6f})", case=case,
                          mechanism="rho_value" + mech_suffix, monitor="StateTomography.process post-condition")
        elif abs(fid - 1) > 1e-6 and data_kind not in ("integer_counts", "numpy_integer_counts"):
            ctx.violation(f"fidelity against the prepared state is {fid:.9f}", case=case,
                          mechanism="rho_fidelity" + mech_suffix, monitor="StateTomography.process post-condition")
        if circmon.circuit_fingerprint(base, with_unitary=True) != fp:
            ctx.violation("the base circuit changed", case=case, mechanism="base_changed" + mech_suffix,
                          monitor="base circuit fingerprint")
        # the same long-lived StateTomography object after its base circuit was edited in place
        if rng.random() < 0.3:
            try:
                qi = int(rng.integers(n))
                pp = None
                if rng.random() < 0.4:
                    # the edit is a phase shifter driven by a Parameter (before a mixing gate, so that it matters)
                    pp = lw.Parameter(float(rng.uniform(0.4, 2.6)))
                    base.ps(offs[qi] + int(rng.integers(2)), pp)
                    base.add(lw.qubit.H(), offs[qi])
                    desc = ["ps(Parameter) + H"]
                else:
                    gate, desc = random_1q(lw, rng)
                    base.add(gate, offs[qi])
                ctx.bucket("tomography_object_reused_after_edit")
                m2 = tomoref.dual_rail_matrix(base, n)
                psi2 = m2[:, 0]
                if np.linalg.norm(psi2) > 1e-6:
                    psi2 = psi2 / np.linalg.norm(psi2)
                    rho2_exp = np.outer(psi2, psi2.conj())
                    m_base = m2            # the callback identifies circuits against the edited base
                    seen["settings"].clear()
                    seen["data"].clear()
                    rho2 = st.process()
                    if data_kind in ("integer_counts", "numpy_integer_counts") and len(seen["data"]) == 3 ** n:
                        rho2_exp = tomoref.rho_from_counts(seen["data"], n)      # rounded counts: data-level reference
                    elif data_kind in ("integer_counts", "numpy_integer_counts"):
                        rho2_exp = rho2
                    d2 = float(np.max(np.abs(rho2 - rho2_exp)))
                    if d2 > 1e-8:
                        ctx.violation(f"after editing the base circuit in place, process() on the same object gives a rho "
                                      f"that differs from the new |psi><psi| by {d2:.3g}", case={**case, "edit": desc + [qi]},
                                      mechanism="rho_value_after_in_place_edit", monitor="StateTomography.process post-condition")
                    if pp is not None and data_kind not in ("integer_counts", "numpy_integer_counts"):
                        # ... and the same object once more after only the Parameter's value changed
                        pp.set(float(pp.get() + rng.uniform(0.5, 2.0)))
                        ctx.bucket("tomography_object_reused_after_parameter_change")
                        m3 = tomoref.dual_rail_matrix(base, n)
                        psi3 = m3[:, 0] / np.linalg.norm(m3[:, 0])
                        m_base = m3
                        seen["settings"].clear()
                        seen["data"].clear()
                        rho3 = st.process()
                        d3 = float(np.max(np.abs(rho3 - np.outer(psi3, psi3.conj()))))
                        if d3 > 1e-8:
                            ctx.violation(f"after a Parameter of the base circuit changed, process() on the same object gives a "
                                          f"rho that differs from the new |psi><psi| by {d3:.3g}", case={**case, "edit": desc + [qi]},
                                          mechanism="rho_value_after_parameter_change",
                                          monitor="StateTomography.process post-condition")
            except Exception as e:  # noqa: BLE001
                ctx.violation(f"second process() raised {type(e).__name__}: {e}", case=case,
                              mechanism="state_tomography_raised_on_reuse:" + type(e).__name__, monitor="driver")
        try:
            earlier.append((st, np.array(st.rho, copy=True)))      # recorded only after this case stopped using it
            del earlier[:-3]
        except Exception:  # noqa: BLE001
            pass
        ctx.case((n, tuple(tuple(map(str, g)) for g in log), direct), bool(y_exp > 0.05 or ent or direct != "none"),
                 sample=case)
        drain_into(ctx, case)
    merge_stats(ctx)
