"""C12 - qiskit conversion preserves the circuit's unitary, or refuses.

Deciding monitor: post-condition on ``QiskitConverter.convert`` (hence on
``qiskit_converter``; every call anywhere): the amplitude matrix of the returned
photonic circuit on the dual-rail basis, over all outputs accepted by its heralds
and the returned post-selection rules (own permanent over U_full + heralds), must
be one common non-zero scalar times qiskit's Operator of the input circuit, with
no amplitude on accepted non-qubit outputs. A ValueError / LightworksError is
the legitimate refusal and is recorded, not judged."""
from __future__ import annotations

import functools
import math

import numpy as np

from .. import circmon, qubitref as qr
from .common import drain_into, merge_stats, setup

PROPERTY = "C12"
RULE = ("seeded random qiskit circuits (1-4 qubits, 1-10 gates over h,x,y,z,s,sdg,t,tdg,sx,rx,ry,rz,p,cx,cz,swap,ccx,ccz; "
        "adjacent and non-adjacent qubits, both control/target orders, angles incl. 0, pi, 2pi, negative) x both "
        "allow_post_selection values, plus structured families (three-qubit gate followed by a two-qubit gate on 0/1/2 of "
        "its qubits, non-adjacent reversed cx, cascaded heralded gates); distinct = (gate-name sequence with qubits, "
        "flag); non-trivial = at least one multi-qubit gate")
MANDATORY = ["three_qubit_then_two_qubit_on_two_of_its_qubits", "nonadjacent_cx_reversed", "two_heralded_cascaded",
             "post_selection_rules_returned", "refusal_recorded", "allow_ps_true", "allow_ps_false", "swap_gate",
             "converter_object_reused", "two_qubit_gate_distance_ge4", "gate_then_swaps_carry_qubits_away",
             "rotation_angle_near_special_value"]
DECIDING = ["mon.converter_postconditions"]
BUDGET = {"quick": 35, "thorough": 540}
ASSUMPTIONS = ["qiskit.quantum_info.Operator (little-endian) is the reference unitary", "conversions whose photonic "
               "circuit needs more than 8 (quick) / 10 (thorough) photons incl. heralds are skipped and counted",
               "for large cases the non-qubit outputs checked for leakage are a seeded sample of 60"]
MAX_PHOTONS = {"quick": 8, "thorough": 10}
_tier = ["quick"]
_rng = [np.random.default_rng(0)]


def check_conversion(qc, circuit, rules, State):
    from qiskit.quantum_info import Operator
    n = qc.num_qubits
    h = circuit.heralds
    if circuit.input_modes != 2 * n:
        return [f"structure: converted circuit has {circuit.input_modes} visible modes for {n} qubits"]
    hph = sum(h["input"].values())
    if n + hph > MAX_PHOTONS[_tier[0]]:
        circmon.STATS["converter_skipped_size"] += 1
        return None
    u = circuit.U_full
    if u.shape[0] != circuit.n_modes:
        return ["structure: converted circuit contains loss"]
    accept = (lambda o: rules.validate(State(list(o)))) if rules is not None else None
    m, leak = qr.subspace_matrix(u, h, circuit.n_modes, n, accept=accept,
                                 leak_sample=60 if n + hph >= 6 else None, rng=_rng[0])
    # qiskit is little-endian: qubit 0 is the least significant bit
    op = Operator(qc).data
    dim = 2 ** n
    idx = [int("".join(str(b) for b in reversed(bits)), 2) for bits in qr.basis(n)]
    g = op[np.ix_(idx, idx)]
    problems = []
    ok, c, dev = qr.proportional(m, g, tol=1e-8)
    if not ok:
        problems.append(f"matrix: accepted amplitudes are not a multiple of the qiskit unitary (max deviation {dev:.3g}, "
                        f"heralds {len(h['input'])}, rules {None if rules is None else [r.as_tuple() for r in rules.rules]})")
    elif abs(c) <= 1e-9:
        problems.append("scalar: the common scalar is zero")
    if leak:
        b, o, a = leak[0]
        problems.append(f"leak: input {b} reaches accepted non-qubit output {list(o)} with amplitude {a:.6f}")
    return problems


def install(lw):
    from lightworks.qubit.converter import qiskit_convert as qmod
    QC = qmod.QiskitConverter
    if getattr(QC, "_lwverif", False):
        return
    State = lw.State
    orig = QC.convert

    @functools.wraps(orig)
    def convert(self, q_circuit):
        try:
            res = orig(self, q_circuit)
        except Exception as e:
            circmon.STATS["converter_refusals"] += 1
            circmon.STATS["converter_refusal:" + type(e).__name__] += 1
            raise
        try:
            circuit, rules = res
            problems = check_conversion(q_circuit, circuit, rules, State)
        except Exception as e:  # noqa: BLE001
            circmon.STATS["converter_monitor_error:" + type(e).__name__] += 1
            return res
        if problems is None:
            return res
        circmon.STATS["converter_postconditions"] += 1
        names = [(i.operation.name, [q._index for q in i.qubits]) for i in q_circuit.data]
        for p in problems:
            circmon.report("C12", f"allow_post_selection={self.allow_post_selection}: {p}",
                           monitor="QiskitConverter.convert post-condition", mechanism="conversion_" + p.split(":")[0]
                           + ":" + classify(names, self.allow_post_selection), witness={"gates": names})
        return res

    QC.convert = convert
    QC._lwverif = True


def classify(names, allow_ps):
    """Mechanism class of a wrong conversion (used only to key known findings)."""
    multi = [(g, q) for g, q in names if len(q) >= 2 and g != "swap"]
    for i, (g, q) in enumerate(multi):
        if len(q) == 3 and allow_ps:
            for g2, q2 in multi[i + 1:]:
                if len(set(q) & set(q2)) >= 2:
                    return "three_qubit_gate_followed_by_gate_on_two_of_its_qubits"
    return "other"


ROT_NEAR = [0]
ONE = ["h", "x", "y", "z", "s", "sdg", "t", "tdg", "sx"]
ROT = ["rx", "ry", "rz", "p"]


def angle(rng):
    r = rng.random()
    if r < 0.25:
        # a small but non-zero offset from a multiple of pi/2 (in particular from a whole number of turns)
        k = int(rng.integers(-8, 9))
        delta = float(rng.choice([1e-3, 2e-5, 1e-6, 1e-7, -2e-5, -1e-3]))
        return k * math.pi / 2 + delta
    return float(rng.choice([0.0, math.pi, 2 * math.pi, -math.pi / 2, math.pi / 4, rng.uniform(-7, 7), rng.uniform(-7, 7)]))


FORMS = [0]


def add_random_gate(qc, rng, n, log, allow3=True, max_multi=None, counter=None):
    kinds = ["one", "one", "rot"]
    if n >= 2 and (max_multi is None or counter[0] < max_multi):
        kinds += ["two", "two", "swap"]
    if n >= 3 and allow3 and (max_multi is None or counter[0] < max_multi):
        kinds += ["three"]
    kind = str(rng.choice(kinds))
    if kind == "one":
        g = str(rng.choice(ONE)); q = int(rng.integers(n)); getattr(qc, g)(q); log.append([g, q])
    elif kind == "rot":
        g = str(rng.choice(ROT)); q = int(rng.integers(n)); th = angle(rng)
        r_form = rng.random()
        if r_form < 0.06:
            th = int(round(th))                                  # an integer angle
        if r_form < 0.12:
            getattr(qc, g)(np.float64(th) if r_form >= 0.06 else th, q)
        elif r_form < 0.2:
            # a symbolic qiskit parameter, bound to the value before the circuit is handed over
            from qiskit.circuit import Parameter as QParameter
            sym = QParameter("a%d" % len(log))
            getattr(qc, g)(sym, q)
            qc.assign_parameters({sym: th}, inplace=True)
            FORMS[0] += 1
        else:
            getattr(qc, g)(th, q)
        log.append([g, th, q])
        if abs(th / (math.pi / 2) - round(th / (math.pi / 2))) < 1e-3 and th != 0 and abs(th - round(th / (math.pi / 2)) * math.pi / 2) > 0:
            ROT_NEAR[0] += 1
    elif kind == "two":
        g = str(rng.choice(["cx", "cz"])); a, b = [int(x) for x in rng.choice(n, size=2, replace=False)]
        getattr(qc, g)(a, b); log.append([g, a, b]); counter[0] += 1
    elif kind == "swap":
        a, b = [int(x) for x in rng.choice(n, size=2, replace=False)]
        qc.swap(a, b); log.append(["swap", a, b])
    else:
        g = str(rng.choice(["ccx", "ccz"]))
        base = int(rng.integers(0, n - 2))
        qs = [base, base + 1, base + 2]
        rng.shuffle(qs)
        getattr(qc, g)(*[int(x) for x in qs]); log.append([g] + [int(x) for x in qs]); counter[0] += 1


class ConversionTimeout(BaseException):
    pass


class conversion_watchdog:  # noqa: N801
    """Interrupts a conversion that does not return (SIGALRM; the converter is pure Python)."""

    def __init__(self, seconds):
        self.seconds = seconds

    def _fire(self, *_a):
        raise ConversionTimeout

    def __enter__(self):
        import signal
        self.old = signal.signal(signal.SIGALRM, self._fire)
        signal.alarm(self.seconds)

    def __exit__(self, *exc):
        import signal
        signal.alarm(0)
        signal.signal(signal.SIGALRM, self.old)
        return False


def presentation(qc, rng):
    """The same qiskit circuit (same qubits in the same circuit order, same instructions) declared in another of the
    ways qiskit offers: one register (as built), several quantum registers, loose qubits without a register, or with an
    additional (unused) classical register. The converter's contract is in terms of the circuit's qubit order."""
    from qiskit import ClassicalRegister, QuantumCircuit, QuantumRegister
    from qiskit.circuit import Qubit
    n = qc.num_qubits
    how = str(rng.choice(["one_register"] * 5 + ["several_registers", "several_registers", "loose_qubits",
                                                   "classical_register", "named_register"]))
    if how == "one_register" or (how == "several_registers" and n < 2):
        return qc, "one_register"
    if how == "several_registers":
        k = int(rng.integers(2, min(n, 3) + 1))
        cuts = sorted(int(x) for x in rng.choice(np.arange(1, n), size=k - 1, replace=False))
        sizes = [b - a for a, b in zip([0] + cuts, cuts + [n])]
        new = QuantumCircuit(*[QuantumRegister(sz, "r%d" % i) for i, sz in enumerate(sizes)])
        how += " " + str(sizes)
    elif how == "loose_qubits":
        new = QuantumCircuit([Qubit() for _ in range(n)])
    elif how == "classical_register":
        new = QuantumCircuit(QuantumRegister(n, "q"), ClassicalRegister(max(1, n - 1), "c"))
    else:
        new = QuantumCircuit(QuantumRegister(n, "data"))
    for inst in qc.data:
        new.append(inst.operation, [new.qubits[qc.find_bit(q).index] for q in inst.qubits])
    return new, how


def run(ctx):
    lw = setup(ctx, warm=False)
    install(lw)
    from qiskit import QuantumCircuit
    _tier[0] = ctx.tier
    _rng[0] = np.random.default_rng(ctx.ss.spawn(1)[0])
    rng = ctx.rng
    conv_fn = lw.qubit.qiskit_converter
    from lightworks.qubit.converter.qiskit_convert import QiskitConverter
    reused = {True: QiskitConverter(True), False: QiskitConverter(False)}

    def conv(qc, allow_post_selection=False):
        # half of the conversions go through long-lived converter objects (their state must not leak)
        if rng.random() < 0.5:
            ctx.bucket("converter_object_reused")
            return reused[allow_post_selection].convert(qc)
        # the flag in the forms a caller may hand over: bool, numpy bool (the result of a comparison), 0 / 1
        r_f = rng.random()
        flag = allow_post_selection
        if r_f < 0.25:
            flag = np.bool_(flag)
        elif r_f < 0.4:
            flag = int(flag)
        if r_f < 0.4:
            ctx.bucket("allow_post_selection_given_as:" + type(flag).__name__)
        if rng.random() < 0.3:
            return QiskitConverter(flag).convert(qc)
        return conv_fn(qc, flag) if rng.random() < 0.5 else conv_fn(qc, allow_post_selection=flag)
    it = 0
    while not ctx.out_of_time():
        it += 1
        log: list = []
        fam = it % 6
        counter = [0]
        if fam == 0:
            # three-qubit gate followed by a two-qubit gate sharing 0/1/2 of its qubits
            n = int(rng.choice([3, 4]))
            qc = QuantumCircuit(n)
            for _ in range(int(rng.integers(0, 3))):
                add_random_gate(qc, rng, n, log, allow3=False, max_multi=0, counter=counter)
            base = int(rng.integers(0, n - 2))
            g3 = str(rng.choice(["ccx", "ccz"]))
            qs = [base, base + 1, base + 2]
            if g3 == "ccx" and rng.random() < 0.5:
                rng.shuffle(qs)
            getattr(qc, g3)(*[int(x) for x in qs]); log.append([g3] + [int(x) for x in qs])
            share = int(rng.choice([0, 1, 2, 2])) if n == 4 else int(rng.choice([2, 2, 1]))
            inside = [base, base + 1, base + 2]
            outside = [q for q in range(n) if q not in inside]
            if share == 2 or not outside:
                a, b = [int(x) for x in rng.choice(inside, size=2, replace=False)]
                ctx.bucket("three_qubit_then_two_qubit_on_two_of_its_qubits")
            elif share == 1:
                a, b = int(rng.choice(inside)), int(rng.choice(outside))
                if rng.random() < 0.5:
                    a, b = b, a
            else:
                a, b = int(rng.choice(inside)), int(rng.choice(outside))
            g2 = str(rng.choice(["cx", "cz"]))
            getattr(qc, g2)(a, b); log.append([g2, a, b])
            allow = True
        elif fam == 1:
            n = int(rng.choice([3, 4]))
            qc = QuantumCircuit(n)
            a, b = n - 1, 0
            qc.h(a); log.append(["h", a])
            qc.cx(a, b); log.append(["cx", a, b])
            ctx.bucket("nonadjacent_cx_reversed")
            for _ in range(int(rng.integers(0, 3))):
                add_random_gate(qc, rng, n, log, allow3=False, max_multi=1, counter=counter)
            allow = bool(rng.random() < 0.5)
        elif fam == 2:
            n = int(rng.choice([2, 3]))
            qc = QuantumCircuit(n)
            for _ in range(2):
                g = str(rng.choice(["cx", "cz"])); a, b = [int(x) for x in rng.choice(n, size=2, replace=False)]
                getattr(qc, g)(a, b); log.append([g, a, b])
                q = int(rng.integers(n)); qc.h(q); log.append(["h", q])
            ctx.bucket("two_heralded_cascaded")
            allow = False
        elif fam == 4:
            # an entangling gate whose qubits are afterwards carried away by explicit swaps (possibly onto lines no
            # other multi-qubit gate touches), optionally followed by more gates
            n = int(rng.choice([3, 4, 4]))
            qc = QuantumCircuit(n)
            a, b = [int(x) for x in rng.choice(n, size=2, replace=False)]
            g = str(rng.choice(["cx", "cz"]))
            if rng.random() < 0.3:
                qc.h(a); log.append(["h", a])
            getattr(qc, g)(a, b); log.append([g, a, b])
            others = [q for q in range(n) if q not in (a, b)]
            rng.shuffle(others)
            movers = [a, b] if (n == 4 and rng.random() < 0.7) else [int(rng.choice([a, b]))]
            for mv, tgt in zip(movers, others):
                qc.swap(mv, int(tgt)); log.append(["swap", mv, int(tgt)])
            ctx.bucket("gate_then_swaps_carry_qubits_away")
            for _ in range(int(rng.integers(0, 3))):
                add_random_gate(qc, rng, n, log, allow3=False, max_multi=1, counter=counter)
            allow = bool(rng.random() < 0.8)
        elif fam == 3:
            # a two-qubit gate between far-apart qubits (needs several swaps each side) on 5-6 qubits
            n = int(rng.choice([5, 5, 6]))
            qc = QuantumCircuit(n)
            for _ in range(int(rng.integers(0, 3))):
                add_random_gate(qc, rng, n, log, allow3=False, max_multi=0, counter=counter)
            dist = int(rng.integers(3, n))
            a = int(rng.integers(0, n - dist))
            b = a + dist
            if rng.random() < 0.5:
                a, b = b, a
            g = str(rng.choice(["cx", "cz"]))
            getattr(qc, g)(a, b); log.append([g, a, b])
            for _ in range(int(rng.integers(0, 3))):
                add_random_gate(qc, rng, n, log, allow3=False, max_multi=0, counter=counter)
            if dist >= 4:
                ctx.bucket("two_qubit_gate_distance_ge4")
            allow = bool(rng.random() < 0.5)
        else:
            n = int(rng.integers(1, 5))
            qc = QuantumCircuit(n)
            max_multi = 3 if n <= 2 else 2
            for _ in range(int(rng.integers(1, 11))):
                add_random_gate(qc, rng, n, log, max_multi=max_multi, counter=counter)
            allow = bool(rng.random() < 0.5)
        if it == 1 or rng.random() < 0.01:
            # directed: two entangling gates on one pair (the first must be heralded), then so many further two-qubit gates
            # on one of its qubits that any narrow counter of "later uses" has gone round (255 / 256 / 511 / 512)
            n = 3
            qc = QuantumCircuit(n)
            log = []
            q0, q1, q2 = [int(x) for x in rng.permutation(3)]
            qc.h(q0); log.append(["h", q0])
            g_ = str(rng.choice(["cx", "cz"]))
            getattr(qc, g_)(q0, q1); getattr(qc, g_)(q0, q1); log += [[g_, q0, q1], [g_, q0, q1]]
            k_ = int(rng.choice([254, 255, 256, 511]))
            for _ in range(k_):
                qc.swap(q0, q2)
            log.append(["swap x%d" % k_, q0, q2])
            allow = True
            ctx.bucket("several_hundred_gates")
        elif rng.random() < 0.015 and n >= 3 and n <= 4:
            # a very long tail: a few hundred swap gates after the entangling part (counts beyond 255 per qubit)
            a_, b_ = [int(x) for x in rng.choice(n, size=2, replace=False)]
            k_ = int(rng.choice([250, 255, 256, 257, 300, 512]))
            for _ in range(k_):
                qc.swap(a_, b_)
            log.append(["swap x%d" % k_, a_, b_])
            ctx.bucket("several_hundred_gates")
        if any(g[0] == "swap" for g in log):
            ctx.bucket("swap_gate")
        if rng.random() < 0.06:
            # a user-defined gate that merely carries the *name* of a supported gate but does something else: the converter
            # must convert what the circuit does (qiskit knows its unitary) or refuse - never go by the name
            from qiskit import QuantumCircuit as _QC
            nm_, nq_ = [("h", 1), ("x", 1), ("z", 1), ("swap", 2), ("cx", 2), ("cz", 2)][int(rng.integers(6))]
            body = _QC(nq_, name=nm_)
            if nq_ == 1:
                getattr(body, str(rng.choice([g_ for g_ in ("x", "h", "s", "y") if g_ != nm_])))(0)
            else:
                getattr(body, str(rng.choice([g_ for g_ in ("cx", "cz", "swap") if g_ != nm_])))(0, 1)
            if n >= nq_:
                qs_ = [int(x) for x in rng.choice(n, size=nq_, replace=False)]
                qc.append(body.to_gate(), qs_)
                log.append(["custom gate named " + nm_] + qs_)
                ctx.bucket("custom_gate_named_like_a_supported_gate")
        qc, presented = presentation(qc, rng)
        ctx.bucket("qiskit_circuit_presented_as:" + presented.split(" ")[0])
        if FORMS[0]:
            ctx.bucket("rotation_angle_bound_from_symbolic_parameter", FORMS[0])
            FORMS[0] = 0
        if ROT_NEAR[0]:
            ctx.bucket("rotation_angle_near_special_value", ROT_NEAR[0])
            ROT_NEAR[0] = 0
        ctx.bucket("allow_ps_true" if allow else "allow_ps_false")
        case = {"qubits": n, "gates": log, "allow_post_selection": allow, "qiskit_circuit_presented_as": presented}
        if rng.random() < 0.15:
            # first a circuit the converter has to refuse half-way: supported gates (with a long-range two-qubit gate last)
            # followed by an instruction it does not support; what it had begun may leave no trace in what comes next
            nr = int(rng.integers(3, 6))
            bad = QuantumCircuit(nr, nr) if rng.random() < 0.5 else QuantumCircuit(nr)
            blog: list = []
            for _ in range(int(rng.integers(0, 3))):
                add_random_gate(bad, rng, nr, blog, allow3=False, max_multi=1, counter=[0])
            a_, b_ = (0, nr - 1) if rng.random() < 0.5 else (nr - 1, 0)
            getattr(bad, str(rng.choice(["cx", "cz"])))(a_, b_)
            kind_bad = str(rng.choice(["barrier", "measure", "reset", "u", "crz", "delay"]))
            if kind_bad == "barrier":
                bad.barrier()
            elif kind_bad == "measure":
                bad.measure_all() if bad.num_clbits == 0 else bad.measure(0, 0)
            elif kind_bad == "reset":
                bad.reset(0)
            elif kind_bad == "u":
                bad.u(0.3, 0.2, 0.1, int(rng.integers(nr)))
            elif kind_bad == "crz":
                bad.crz(0.4, 0, 1)
            else:
                bad.delay(10, 0)
            if rng.random() < 0.5:
                bad.h(0)
            try:
                with conversion_watchdog(10):
                    conv(bad, allow_post_selection=allow)
                ctx.count("unsupported_instruction_converted:" + kind_bad)
            except ConversionTimeout:
                ctx.count("conversion_did_not_return_within_10s")
            except Exception as e:  # noqa: BLE001
                ctx.bucket("conversion_after_one_refused_half_way")
                ctx.count("refused_half_way:" + kind_bad + ":" + type(e).__name__)
                case["preceded_by_refused_circuit"] = blog + [[kind_bad]]
            circmon.drain()
        try:
            with conversion_watchdog(10):
                circuit, rules = conv(qc, allow_post_selection=allow)
            if rules is not None:
                ctx.bucket("post_selection_rules_returned")
        except ConversionTimeout:
            # neither a conversion nor a refusal within 10 s of pure-Python work that normally takes milliseconds: recorded,
            # not judged (no finite wait decides 'never returns'); the run continues with the next circuit
            ctx.count("conversion_did_not_return_within_10s")
            reused = {True: QiskitConverter(True), False: QiskitConverter(False)}
        except Exception as e:  # noqa: BLE001
            nm = type(e).__name__
            if nm in ("ValueError", "LightworksError"):
                ctx.bucket("refusal_recorded")
            else:
                ctx.violation(f"converter raised {nm}: {e}", case=case, mechanism="converter_raised:" + nm,
                              monitor="driver")
        multi = sum(1 for g in log if g[0] in ("cx", "cz", "ccx", "ccz", "swap"))
        ctx.case((tuple(tuple(g) if g[0] not in ROT else (g[0], g[2]) for g in log), allow), multi > 0, sample=case)
        drain_into(ctx, case)
    merge_stats(ctx)
