"""C02 - adding a sub-circuit wires it in order; heralded modes become private ancillas.

Workload: random circuit trees (nesting, grouping flags, heralds in random
declaration order, in!=out heralds, several children per parent in random order,
library gates as leaves, loss in leaves). Deciding monitor: the shadow wire model
advanced by the depth-0 ``add``/``herald``/primitive wrappers, compared with the
implementation's heralded amplitudes and frame (n_modes, input_modes, herald
photons) at quiescent points."""
from __future__ import annotations

import numpy as np

from .. import circmon
from ..gen import Builder
from .common import drain_into, merge_stats, setup

PROPERTY = "C02"
RULE = ("seeded random circuit trees built with add/herald/primitives (depth 0-3, leaves 1-6 modes, "
        "0-2 heralds of 0-2 photons on arbitrary in/out modes, random declaration order, children at "
        "every legal offset, group flag random, library gates as leaves, loss in leaves); distinct = "
        "canonical (tree shape, placements, herald pattern); non-trivial = some add met a behavioural "
        "bucket {existing ancilla inside/after the span, child herald in!=out, non-ascending herald "
        "declaration, nesting depth>=2, ungrouped add, child contains a group}")
MANDATORY = ["add_ancilla_inside_span", "add_ancilla_after_span", "add_child_herald_in_ne_out",
             "add_heralds_nonascending", "add_nested_depth2", "add_ungrouped", "add_child_has_group",
             "add_inside_x_in_ne_out", "add_ancilla_before_span", "plus_operator", "child_extended_after_it_was_added"]
DECIDING = ["mon.cmp", "tree_comparisons"]
BUDGET = {"quick": 30, "thorough": 480}
ASSUMPTIONS = ["wire model + own permanent are the reference; visible photon number <= 2 (3 when small) "
               "per compared amplitude, herald photons included; loss modes in vacuum (loss-summed "
               "probabilities follow from these amplitudes plus unitarity, which C01 checks)"]


def shape_key(log):
    out = []
    for st in log:
        if st[0] == "add":
            out.append(("add", shape_key(st[1]), st[2], st[3]))
        elif st[0] == "herald":
            out.append(("herald", st[1], st[2], st[3]))
        elif st[0] == "plus":
            out.append(("plus", shape_key(st[1]), shape_key(st[2])))
        elif st[0] in ("circuit", "gate", "plus_self", "add_same_child_again"):
            out.append(tuple(st))
        elif st[0] == "bs":
            out.append(("bs", st[1], st[2], st[4]))
        elif st[0] in ("ps", "loss"):
            out.append((st[0], st[1]))
        else:
            out.append((st[0],))
    return tuple(out)


class AddClassifier:
    def __init__(self, ctx):
        self.ctx = ctx
        self.hit = False

    def __call__(self, parent, child, m, group):
        from lightworks.sdk.circuit.components import Group  # noqa: PLC0415
        ctx = self.ctx
        k = child.input_modes
        internal = list(parent._internal_modes)
        lo = parent._map_mode(m)
        hi = parent._map_mode(m + k - 1) if k else lo
        inside = any(lo < i < hi for i in internal)
        hin, hout = child.heralds["input"], child.heralds["output"]
        ne = list(hin.keys()) != list(hout.keys())
        if inside:
            ctx.bucket("add_ancilla_inside_span")
        if any(i > hi for i in internal):
            ctx.bucket("add_ancilla_after_span")
        if any(i < lo for i in internal):
            ctx.bucket("add_ancilla_before_span")
        if ne:
            ctx.bucket("add_child_herald_in_ne_out")
        if list(hin.keys()) != sorted(hin.keys()):
            ctx.bucket("add_heralds_nonascending")
        if child._internal_modes:
            ctx.bucket("add_nested_depth2")
        spec = child._Circuit__circuit_spec
        if any(isinstance(s, Group) for s in spec):
            ctx.bucket("add_child_has_group")
        if not group and not hin:
            ctx.bucket("add_ungrouped")
        if inside and ne:
            ctx.bucket("add_inside_x_in_ne_out")
        if inside and hin:
            ctx.bucket("add_inside_x_child_heralds")
        if sum(hin.values()) > 0:
            ctx.bucket("add_child_herald_photons")
        self.hit = self.hit or inside or ne or bool(child._internal_modes) or bool(internal) \
            or (not group and not hin)


def check(ctx, c, log, rng):
    status, problems = circmon.compare(c, rng)
    if status != "compared":
        ctx.count("skipped_" + status)
        return
    ctx.count("tree_comparisons")
    sh = circmon.shadow_of(c)
    for kind, detail in problems:
        if kind == "unitarity":
            ctx.count("other_property_observations:C01")
            continue
        ctx.violation(f"{kind}: {detail}", case={"tree": log}, mechanism="wiring_" + kind,
                      monitor="shadow wire model vs implementation", witness={"events": sh.events})


def directed(ctx, lw, rng, cls):
    """One deliberately built case per mandatory bucket."""
    b = Builder(rng, lw, on_add=cls)
    log = []
    p = lw.Circuit(6); log.append(["circuit", 6])
    sl = []
    s1 = b.leaf(3, 3, sl, heralds=0)
    s1.herald(int(rng.integers(0, 2)), 1); sl.append(["herald", "n", 1, None])
    cls(p, s1, 1, True); p.add(s1, 1, True); log.append(["add", sl, 1, True])       # ancilla at full mode 2
    sl = []
    s2 = b.leaf(4, 3, sl, heralds=0)
    s2.herald(1, 3, 0); sl.append(["herald", 1, 3, 0])
    s2.herald(0, 1, 2); sl.append(["herald", 0, 1, 2])                             # non-ascending, in!=out
    cls(p, s2, 0, False); p.add(s2, 0); log.append(["add", sl, 0, False])          # spans the ancilla
    sl = []
    s3 = b.leaf(2, 2, sl, heralds=0)
    cls(p, s3, 0, False); p.add(s3, 0, False); log.append(["add", sl, 0, False])   # ungrouped, ancillas after/inside
    sl = []
    s4 = b.leaf(2, 2, sl, heralds=0)
    cls(p, s4, 4, True); p.add(s4, 4, True); log.append(["add", sl, 4, True])      # ancillas before span
    check(ctx, p, log, rng)
    outer = lw.Circuit(7); olog = [["circuit", 7]]
    m = int(rng.integers(0, 2))
    cls(outer, p, m, False); outer.add(p, m); olog.append(["add", log, m, False])  # nested depth 2, child has group
    sl = []
    s5 = b.leaf(3, 2, sl, heralds=0)
    cls(outer, s5, 2, False); outer.add(s5, 2, False); olog.append(["add", sl, 2, False])
    check(ctx, outer, olog, rng)
    ctx.case(("directed", shape_key(olog)), True, sample={"tree": olog})
    drain_into(ctx, {"tree": olog})


def run(ctx):
    lw = setup(ctx, warm=False)
    rng = ctx.rng
    cls = AddClassifier(ctx)
    try:
        directed(ctx, lw, rng, cls)
    except Exception as e:  # noqa: BLE001 - the implementation refusing the directed case is itself an observation
        ctx.violation(f"directed prelude raised {type(e).__name__}: {e}", mechanism="directed_raised",
                      monitor="directed prelude")
    while not ctx.out_of_time():
        cls.hit = False
        b = Builder(rng, lw, loss_p=float(rng.choice([0.0, 0.0, 0.2])), on_add=cls,
                    max_herald_photons=int(rng.choice([1, 2])))
        n = int(rng.integers(2, 8)) if rng.random() < 0.9 else int(rng.integers(8, 12))
        depth = int(rng.choice([1, 1, 2, 2, 3]))
        log: list = []
        try:
            c = b.tree(n, depth, log, max_children=int(rng.integers(1, 5)),
                       group_p=float(rng.choice([0.2, 0.5, 0.8])),
                       gate_p=float(rng.choice([0.0, 0.15, 0.3])))
        except Exception as e:  # noqa: BLE001
            # every step the generator takes is a legal call: a raise is a refuting observation
            ctx.violation(f"legal construction step raised {type(e).__name__}: {e}",
                          case={"tree": log, "failing_call": b.last},
                          mechanism="legal_call_raised:" + type(e).__name__,
                          monitor="tree builder")
            ctx.case(shape_key(log), cls.hit)
            drain_into(ctx, {"tree": log})
            continue
        check(ctx, c, log, rng)
        for child, sub_log in b.children:
            if child._internal_modes or rng.random() < 0.3:
                try:
                    elog: list = []
                    for _ in range(int(rng.integers(1, 3))):
                        b.primitive(child, elog, None)
                    if rng.random() < 0.3:
                        extra = b.leaf(2, 1, [], heralds=1)
                        if extra.input_modes <= b.numbered(child):
                            child.add(extra, 0)
                    ctx.bucket("child_extended_after_it_was_added")
                    check(ctx, child, ["child", sub_log, "extended", elog], rng)
                except Exception as e:  # noqa: BLE001
                    ctx.violation(f"extending a circuit after it was used as a sub-circuit raised {type(e).__name__}: {e}",
                                  case={"tree": log, "child": sub_log, "failing_call": b.last},
                                  mechanism="legal_call_raised_on_reused_child:" + type(e).__name__, monitor="tree builder")
        check(ctx, c, log, rng)          # ... and the parent must not have moved
        if any(st[0] == "plus" for st in log):
            ctx.bucket("plus_operator")
        ctx.case(shape_key(log), cls.hit, sample={"tree": log})
        drain_into(ctx, {"tree": log})
    merge_stats(ctx)
