"""C18 - State values behave as immutable Fock states; herald bookkeeping round-trips.

Deciding monitors: a creation-time snapshot table for every State /
AnnotatedState built in the process, re-verified at quiescent points *after the
workload has deliberately tried to mutate every value the API returned*;
post-conditions on ==/hash (reservoir of pairs), +, merge, slicing, counts;
round-trip laws for herald insertion/removal and dB<->decimal; validity and
reproducibility of seeded random unitaries / permutations."""
from __future__ import annotations

import functools
import math

import numpy as np

from .. import circmon
from ..gen import pick_seed
from .common import drain_into, merge_stats, setup

PROPERTY = "C18"
RULE = ("seeded random occupation lists (length 0-12, values 0-6), label lists with repeats in arbitrary order, herald "
        "dictionaries in random key order at positions incl. first and last, slices incl. negative/stepped, seeds and "
        "dimensions 1-12; distinct = (operation, size class, herald position pattern / slice / dimension); "
        "non-trivial = every case that evaluates a law on a non-empty state")
MANDATORY = ["associativity_triple", "merge_commutativity", "unequal_same_photon_number", "herald_first", "herald_last",
             "herald_unsorted_keys", "returned_value_mutated", "annotated_label_order", "db_roundtrip",
             "random_unitary", "random_permutation", "slices", "same_seed_in_another_form",
             "seed_beyond_2^53"]
DECIDING = ["mon.state_snapshots_verified", "law_checks"]
BUDGET = {"quick": 20, "thorough": 300}
ASSUMPTIONS = ["mutating a list the caller itself passed to the constructor is not 'through the API' and is excluded "
               "(the driver always passes a private copy)", "dB values in [0, 100]"]

TABLE: dict = {}
ORDER: list = []
MAXN = 4000
RAND_POOL = []   # (function name, n, seed, private copy of the first answer)


def content(obj):
    s = obj.s
    return [list(x) if isinstance(x, list) else x for x in s]


def install(lw):
    State = lw.State
    from lightworks.emulator.state import AnnotatedState
    if getattr(State, "_lwverif", False):
        return AnnotatedState
    for cls in (State, AnnotatedState):
        oi = cls.__init__

        def make(oi):
            @functools.wraps(oi)
            def init(self, state):
                oi(self, state)
                try:
                    k = id(self)
                    if k not in TABLE:
                        ORDER.append(k)
                        if len(ORDER) > MAXN:
                            TABLE.pop(ORDER.pop(0), None)
                    TABLE[k] = (self, content(self), hash(self))
                    circmon.STATS["state_snapshots_taken"] += 1
                except Exception as e:  # noqa: BLE001
                    circmon.STATS["state_monitor_error:" + type(e).__name__] += 1
            return init
        cls.__init__ = make(oi)
    State._lwverif = True
    return AnnotatedState


def verify_all(ctx, case):
    for k, (obj, snap, h) in list(TABLE.items()):
        circmon.STATS["state_snapshots_verified"] += 1
        now = content(obj)
        if now != snap or hash(obj) != h:
            ctx.violation(f"{type(obj).__name__} built as {snap} now reads {now} (hash changed: {hash(obj) != h})",
                          case=case, mechanism="state_mutated:" + type(obj).__name__ + ":" + str(case.get("op")),
                          monitor="creation-time snapshot")
            TABLE[k] = (obj, now, hash(obj))
    TABLE.clear()
    ORDER.clear()


def run(ctx):
    lw = setup(ctx, warm=False)
    AnnotatedState = install(lw)
    State = lw.State
    from lightworks.sdk.utils import add_heralds_to_state, remove_heralds_from_state
    rng = ctx.rng

    def occ(n=None, hi=6):
        if n is None:
            n = int(rng.integers(0, 13)) if rng.random() < 0.95 else int(rng.integers(13, 40))
            if rng.random() < 0.02:
                n = int(rng.choice([63, 64, 65, 100, 129, 257]))     # wide registers
        return [int(x) for x in rng.integers(0, hi + 1, size=n)]

    def labels(n=None):
        n = int(rng.integers(0, 8)) if n is None else n
        hi = int(rng.choice([4, 4, 7, 12]))
        return [[int(x) for x in rng.integers(0, hi, size=int(rng.integers(0, 4)))] for _ in range(n)]

    def law(ok, what, case, mech):
        ctx.count("law_checks")
        if not ok:
            ctx.violation(what, case=case, mechanism=mech, monitor="law check")

    while not ctx.out_of_time():
        op = str(rng.choice(["eqhash", "add", "merge", "slice", "mutate", "annotated", "heralds", "db", "unitary",
                             "perm", "counts"]))
        case = {"op": op}
        try:
            if op == "eqhash":
                a = occ()
                b = list(a)
                if a and rng.random() < 0.6:      # same photon number, different arrangement
                    i, j = rng.integers(len(a)), rng.integers(len(a))
                    if b[i] > 0 and i != j:
                        b[i] -= 1; b[j] += 1
                        ctx.bucket("unequal_same_photon_number")
                if rng.random() < 0.08:
                    # occupations of several digits whose digit strings read the same (|1,20> and |12,0>)
                    from ..gen import confusable_occupations
                    fam_ = confusable_occupations(rng, int(rng.integers(2, 5)), 2)
                    if len(fam_) == 2:
                        a, b = fam_
                        ctx.bucket("occupations_whose_digits_read_the_same")
                sa, sb = State(list(a)), State(list(b))
                case.update(a=a, b=b)
                law((sa == sb) == (a == b), f"State({a}) == State({b}) is {sa == sb}", case, "eq")
                law(not (a == b) or hash(sa) == hash(sb), "equal states hash differently", case, "hash")
                law((sa != sb) == (a != b), "!= inconsistent with ==", case, "eq")
                law(len({sa, sb}) == (1 if a == b else 2), "set membership inconsistent", case, "hash")
                law(sa != a and not (sa == tuple(a)), "State equals a non-State", case, "eq")
            elif op == "add":
                a, b, c = occ(), occ(), occ()
                case.update(a=a, b=b, c=c)
                ctx.bucket("associativity_triple")
                s = (State(list(a)) + State(list(b))) + State(list(c))
                t = State(list(a)) + (State(list(b)) + State(list(c)))
                law(s == t and s.s == a + b + c, "+ is not associative concatenation", case, "concat")
                law(s.n_photons == sum(a + b + c) and s.n_modes == len(s) == len(a + b + c), "counts after +", case, "counts")
            elif op == "merge":
                n = int(rng.integers(0, 10))
                a, b = occ(n), occ(n)
                case.update(a=a, b=b)
                ctx.bucket("merge_commutativity")
                m1, m2 = State(list(a)).merge(State(list(b))), State(list(b)).merge(State(list(a)))
                law(m1 == m2 and m1.s == [x + y for x, y in zip(a, b)], "merge is not mode-wise addition", case, "merge")
                try:
                    State(list(a)).merge(State(list(a) + [0]))
                    law(False, "merge accepted different lengths", case, "merge")
                except ValueError:
                    ctx.count("law_checks")
            elif op == "slice":
                a = occ()
                n = len(a)
                start = None if rng.random() < 0.3 else int(rng.integers(-n - 1, n + 2))
                stop = None if rng.random() < 0.3 else int(rng.integers(-n - 1, n + 2))
                step = None if rng.random() < 0.6 else int(rng.choice([1, 2, 3, -1, -2]))
                sl = slice(start, stop, step)
                case.update(a=a, slice=[start, stop, step])
                ctx.bucket("slices")
                r = State(list(a))[sl]
                law(isinstance(r, State) and r.s == a[sl], f"slice gives {r!r}", case, "slice")
                if a:
                    i = int(rng.integers(-n, n))
                    law(State(list(a))[i] == a[i], "integer index", case, "index")
            elif op == "mutate":
                a = occ(int(rng.integers(1, 8)))
                s = State(list(a))
                lab = labels(int(rng.integers(1, 6)))
                an = AnnotatedState([list(x) for x in lab])
                case.update(a=a, labels=lab)
                ctx.bucket("returned_value_mutated")
                # try to change the objects through everything the API hands out
                v = s.s; v.append(9); v[0] = 99
                for x in s:
                    pass
                it = list(iter(s)); it[:] = []
                sl = s[:]; _ = sl.s.append(1)
                v = an.s; v.append([7]); v[0].append(5)
                for m in an:
                    m.append(42)
                for i in range(len(an)):
                    an[i].append(77)
                    an[i][:] = []
                an[:].s[0].append(1)
                (an + an).s[0].append(3)
                an.merge(an).s[0].append(3)
                for name, fn in (("s=", lambda: setattr(s, "s", [1])), ("setitem", lambda: s.__setitem__(0, 1)),
                                 ("n_modes=", lambda: setattr(s, "n_modes", 3)),
                                 ("an.setitem", lambda: an.__setitem__(0, [1])), ("an.s=", lambda: setattr(an, "s", [[1]]))):
                    try:
                        fn()
                        law(False, f"direct modification '{name}' was accepted", case, "direct_modification")
                    except Exception:  # noqa: BLE001
                        ctx.count("law_checks")
                law(s.s == a, "State content changed", case, "state_mutated_direct")
            elif op == "annotated":
                lab = labels()
                shuffled = [list(rng.permutation(x)) if x else [] for x in lab]
                shuffled = [[int(v) for v in x] for x in shuffled]
                case.update(labels=lab, shuffled=shuffled)
                ctx.bucket("annotated_label_order")
                a1, a2 = AnnotatedState([list(x) for x in lab]), AnnotatedState([list(x) for x in shuffled])
                law(a1 == a2 and hash(a1) == hash(a2), "label order matters for ==/hash", case, "annotated_order")
                law(a1.n_photons == sum(len(x) for x in lab) and a1.n_modes == len(a1) == len(lab), "annotated counts", case, "counts")
                b = labels(len(lab))
                m = a1.merge(AnnotatedState([list(x) for x in b]))
                law([sorted(x) for x in m.s] == [sorted(x + y) for x, y in zip(lab, b)], "annotated merge", case, "merge")
                # ... and the merged state IS that state: equal to, and hashing like, the one built directly from the
                # per-mode multisets, whichever operand came first (labels of the two operands interleave)
                direct = AnnotatedState([list(x + y) for x, y in zip(lab, b)])
                m_rev = AnnotatedState([list(x) for x in b]).merge(a1)
                case.update(merged_with=b)
                law(m == direct and hash(m) == hash(direct) and m_rev == direct and hash(m_rev) == hash(direct) and m == m_rev,
                    "a merged annotated state does not equal / hash like the state built from the same label multisets",
                    case, "annotated_merge_eq")
                c2 = a1 + AnnotatedState([list(x) for x in b])
                law([sorted(x) for x in c2.s] == [sorted(x) for x in lab + b], "annotated +", case, "concat")
                direct_c = AnnotatedState([list(x) for x in lab + b])
                law(c2 == direct_c and hash(c2) == hash(direct_c),
                    "a concatenated annotated state does not equal / hash like the state built directly", case, "annotated_concat_eq")
                if lab:
                    i, j = sorted(int(x) for x in rng.integers(0, len(lab) + 1, size=2))
                    law(a1[i:j] == AnnotatedState([list(x) for x in lab[i:j]]), "annotated slice", case, "slice")
                if any(lab):
                    other = [list(x) for x in lab]
                    k = next(i for i, x in enumerate(other) if x)
                    other[k] = other[k][:-1] + [other[k][-1] + 10]
                    law(a1 != AnnotatedState(other), "different label multisets compare equal", case, "eq")
            elif op == "heralds":
                a = occ(int(rng.integers(0, 9)), 3)
                nh = int(rng.integers(0, 5))
                if rng.random() < 0.04:
                    a = occ(int(rng.choice([20, 40, 70])), 3)
                    nh = int(rng.choice([9, 12, 17, 33]))
                    ctx.bucket("many_heralds_on_wide_state")
                total = len(a) + nh
                pos = [int(x) for x in rng.choice(total, size=nh, replace=False)] if nh else []
                if nh and rng.random() < 0.3:
                    pos[0] = 0 if 0 not in pos else pos[0]
                if nh and rng.random() < 0.3:
                    pos[-1] = total - 1 if total - 1 not in pos else pos[-1]
                h = {p: int(rng.integers(0, 3)) for p in pos}
                if 0 in h: ctx.bucket("herald_first")
                if total - 1 in h: ctx.bucket("herald_last")
                if list(h) != sorted(h): ctx.bucket("herald_unsorted_keys")
                case.update(a=a, heralds=h)
                arg = State(list(a)) if rng.random() < 0.5 else list(a)
                full = add_heralds_to_state(arg, h)
                law(len(full) == total and all(full[p] == n for p, n in h.items())
                    and [x for i, x in enumerate(full) if i not in h] == a, f"add_heralds_to_state gives {full}", case, "herald_insert")
                keys = list(h.keys())
                rng.shuffle(keys)
                back = remove_heralds_from_state(State(list(full)) if rng.random() < 0.5 else list(full), keys)
                law(list(back) == a, f"remove(add(s,h)) = {list(back)} != {a}", case, "herald_roundtrip")
                law((arg.s if isinstance(arg, State) else arg) == a, "add_heralds_to_state changed its argument", case, "herald_arg")
            elif op == "db":
                ctx.bucket("db_roundtrip")
                x = float(rng.choice([0.0, rng.uniform(0, 100), rng.uniform(0, 3), 10.0, 3.0103]))
                l = float(rng.choice([0.0, rng.random(), 0.5, 1 - 1e-9, 1e-12]))
                case.update(db=x, loss=l)
                if rng.random() < 0.2:
                    # integral dB values in the other numeric types a caller may hold them in
                    xi = int(rng.choice([0, 1, 3, 10, 20, 30]))
                    ty = [int, np.int64, np.int32, np.uint8, np.uint16, np.float32, np.float64][int(rng.integers(7))]
                    ctx.bucket("db_value_as:" + ty.__name__)
                    case.update(db=xi, db_type=ty.__name__)
                    got_ = lw.db_loss_to_decimal(ty(xi))
                    law(abs(got_ - (1 - 10 ** (-xi / 10))) <= 1e-6, f"db_loss_to_decimal({ty.__name__}({xi})) = {got_}", case, "db")
                    if xi == 0 or ty in (int, np.int64, np.uint8):
                        back_ = lw.decimal_to_db_loss(ty(0)) if xi else lw.decimal_to_db_loss(ty(0))
                        law(back_ == 0, f"decimal_to_db_loss({ty.__name__}(0)) = {back_}", case, "db")
                d = lw.db_loss_to_decimal(x)
                law(0 <= d < 1 and abs(lw.decimal_to_db_loss(d) - x) <= 1e-6 * (1 + x) * max(1.0, 10 ** (x / 10) * 1e-9),
                    f"decimal_to_db_loss(db_loss_to_decimal({x})) = {lw.decimal_to_db_loss(d)}", case, "db")
                law(lw.db_loss_to_decimal(-x) == d, "sign convention", case, "db")
                law(abs(lw.db_loss_to_decimal(lw.decimal_to_db_loss(l)) - l) <= 1e-12, "db_loss_to_decimal(decimal_to_db_loss(l)) != l", case, "db")
                for bad in (1.0, 1.5, -0.1):
                    try:
                        lw.decimal_to_db_loss(bad)
                        law(False, f"decimal_to_db_loss accepted {bad}", case, "db")
                    except ValueError:
                        ctx.count("law_checks")
            elif op == "unitary":
                ctx.bucket("random_unitary")
                n = int(rng.integers(1, 13)) if rng.random() < 0.97 else int(rng.choice([16, 17, 32, 33, 64, 65])); seed = pick_seed(rng)
                case.update(n=n, seed=seed)
                u1, u2 = lw.random_unitary(n, seed), lw.random_unitary(n, seed)
                law(u1.shape == (n, n) and np.max(np.abs(u1.conj().T @ u1 - np.eye(n))) < 1e-10, "random_unitary not unitary", case, "random_unitary")
                law(np.array_equal(u1, u2), "same seed, different unitary", case, "random_seed")
                law(not np.array_equal(u1, lw.random_unitary(n, (seed + 1) % 2 ** 32)) or n == 0, "different seeds, same unitary", case, "random_seed")
                # the caller owns what it was given: overwrite the returned arrays, ask again (now and much later)
                saved = u1.copy()
                u1[...] = 0; u2 *= 0.5
                law(np.array_equal(lw.random_unitary(n, seed), saved),
                    "after the caller overwrote a returned matrix, the same seed gives a different / non-unitary matrix", case, "random_result_shared")
                RAND_POOL.append(("random_unitary", n, seed, saved))
                # a seed is a number: written as Python int, numpy integer of any width or integral float it is the same seed
                alt = rng.choice([np.int64, np.uint32, np.uint64, float, int])(int(seed))
                ctx.bucket("same_seed_in_another_form")
                law(np.array_equal(lw.random_unitary(n, alt), saved),
                    f"random_unitary({n}, {type(alt).__name__}({int(seed)})) differs from the one for the seed as {type(seed).__name__}",
                    case, "random_seed_form")
            elif op == "perm":
                ctx.bucket("random_permutation")
                n = int(rng.integers(1, 13)) if rng.random() < 0.97 else int(rng.choice([16, 17, 32, 33, 64, 65])); seed = pick_seed(rng)
                if rng.random() < 0.3:
                    # permutations take any non-negative integer as seed: 64-bit seeds (e.g. children drawn from another
                    # generator), beyond what a double holds exactly
                    big = int(rng.choice([2 ** 53 + 1, 2 ** 53 + 3, 2 ** 62 + 1, 2 ** 63 - 1, 2 ** 32, 2 ** 32 + 1])) if rng.random() < 0.5 \
                        else int(rng.integers(2 ** 53, 2 ** 63 - 1)) | 1
                    seed = rng.choice([np.int64, np.uint64, int])(big)
                    n = max(n, 6)        # (enough room for two seeds to differ)
                    ctx.bucket("seed_beyond_2^53")
                case.update(n=n, seed=seed)
                p1, p2 = lw.random_permutation(n, seed), lw.random_permutation(n, seed)
                ok = p1.shape == (n, n) and np.all((p1 == 0) | (p1 == 1)) and np.all(p1.sum(0) == 1) and np.all(p1.sum(1) == 1)
                law(bool(ok), "random_permutation is not a permutation matrix", case, "random_permutation")
                law(np.array_equal(p1, p2), "same seed, different permutation", case, "random_seed")
                saved = p1.copy()
                p1[...] = 7; p2 *= 0
                law(np.array_equal(lw.random_permutation(n, seed), saved),
                    "after the caller overwrote a returned matrix, the same seed gives a different matrix", case, "random_result_shared")
                RAND_POOL.append(("random_permutation", n, seed, saved))
                forms = [np.int64, np.uint64, int] + ([float] if float(int(seed)) == int(seed) else [])
                alt = forms[int(rng.integers(len(forms)))](int(seed))
                ctx.bucket("same_seed_in_another_form")
                law(np.array_equal(lw.random_permutation(n, alt), saved),
                    f"random_permutation({n}, {type(alt).__name__}({int(seed)})) differs from the one for the seed as {type(seed).__name__}",
                    case, "random_seed_form")
            else:
                a = occ()
                kind_i = str(rng.choice(["list", "tuple", "ndarray", "generator"]))
                src = {"list": list(a), "tuple": tuple(a), "ndarray": np.array(a, dtype=int),
                       "generator": (x for x in a)}[kind_i]
                s = State(src)
                ctx.bucket("state_from_" + kind_i)
                case.update(a=a, built_from=kind_i)
                law(s == State(list(a)) and hash(s) == hash(State(list(a))) and [int(x) for x in s.s] == a,
                    f"State built from a {kind_i} differs from the one built from the list", case, "state_from_iterable")
                law(s.n_photons == sum(a) and s.n_modes == len(a) == len(s) and list(s) == a, "counts", case, "counts")
            if RAND_POOL and op in ("unitary", "perm") and rng.random() < 0.5:
                fn, n0, seed0, saved0 = RAND_POOL[int(rng.integers(len(RAND_POOL)))]
                ctx.bucket("earlier_seed_asked_again")
                again = getattr(lw, fn)(n0, seed0)
                law(np.array_equal(again, saved0), f"{fn}({n0}, {seed0}) asked again later in the process gives a different matrix",
                    dict(case, earlier=(fn, n0, seed0)), "random_seed_later")
                again[...] = 0
                if len(RAND_POOL) > 200:
                    del RAND_POOL[:100]
        except Exception as e:  # noqa: BLE001
            ctx.violation(f"{op} raised {type(e).__name__}: {e}", case=case, mechanism="raised:" + op, monitor="driver")
        verify_all(ctx, case)
        key = (op, len(case.get("a", case.get("labels", []))) // 3, str(case.get("slice")), str(sorted(case.get("heralds", {}))),
               case.get("n"))
        ctx.case(key, True, sample=case)
        drain_into(ctx, case)
    merge_stats(ctx)
