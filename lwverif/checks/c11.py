"""C11 - results depend only on the current configuration, not on history.

Deciding monitor: the fresh-twin oracle (twinmon) on every distribution read and
sampling call of long-lived Sampler / QuickSampler objects driven through random
reconfiguration histories, and the Analyzer.analyze post-condition."""
from __future__ import annotations

import numpy as np

from .. import circmon, emumon, twinmon
from ..gen import Builder, pick_phase, pick_unit, pick_seed
from .c03 import random_state
from .c05 import make_post_selection
from .common import drain_into, merge_stats, setup

def _sibling_predicate(style, m, n):
    """Post-selection predicates that share one code object and differ only in what they captured."""
    if style == "closure":
        def on_mode(s):
            return s[m] == n
        return on_mode

    def on_mode_d(s, m=m, n=n):
        return s[m] == n
    return on_mode_d


PROPERTY = "C11"
RULE = ("seeded random reconfiguration histories (5-40 steps) on one long-lived Sampler / QuickSampler / Analyzer: "
        "reassign circuit (other size, or same unitary with different heralds), edit circuit in place, set parameters, "
        "change input, mutate/replace source, detector, backend, post-selection (replace or mutate in place), toggle "
        "detector mode, interleaved with distribution reads, sample(), sample_N_*(seed); distinct = (object kind, "
        "sequence of step kinds); non-trivial = at least one reconfiguration between two observations")
MANDATORY = ["sample_before_read:Sampler", "sample_before_read:QuickSampler", "same_U_different_heralds",
             "postselection_mutated_in_place", "param_set_between_reads", "circuit_edited_between_reads",
             "source_mutated_between_reads", "backend_swapped", "input_changed", "analyze_without_expected_after_expected",
             "loss_added_in_place", "circuit_replaced_more_loss", "postselection_rule_on_ruled_mode",
             "tiny_reconfiguration", "herald_declared_in_place", "truncated_mass_above_numpy_tolerance",
             "postselection_replaced_by_sibling_from_one_factory"]
DECIDING = ["mon.twin_distribution_reads", "mon.twin_sampling_calls", "mon.analyze_postconditions"]
BUDGET = {"quick": 30, "thorough": 480}
ASSUMPTIONS = ["a twin built from the current public settings is the reference; distributions compared to 1e-12, seeded "
               "sample counts exactly; unseeded N-sample calls are not compared"]


def param_circuit(lw, rng, n):
    """A circuit with a few Parameters and one herald; returns (circuit, params)."""
    c = lw.Circuit(n)
    params = []
    for _ in range(int(rng.integers(2, 6))):
        if rng.random() < 0.15:
            p = lw.Parameter(pick_unit(rng, 0.1))
            c.loss(int(rng.integers(n)), p)
        elif n >= 2 and rng.random() < 0.6:
            p = lw.Parameter(pick_unit(rng, 0.1))
            a = int(rng.integers(n - 1))
            c.bs(a, a + 1, p)
        else:
            p = lw.Parameter(pick_phase(rng))
            c.ps(int(rng.integers(n)), p)
        params.append(p)
    return c, params


def same_u_other_heralds(lw, rng, n):
    """Two circuits with identical components (hence identical U_full) but different heralds,
    same number of non-heralded modes (n - 1)."""
    two = rng.random() < 0.35
    if two:
        n = n + 1           # two heralds: one more mode so that n - 1 non-heralded modes remain
    steps = []
    for _ in range(int(rng.integers(2, 6))):
        a = int(rng.integers(n - 1))
        steps.append((a, float(rng.uniform(0.2, 0.8))))
    m1, m2 = rng.choice(n, size=2, replace=False).tolist()
    if two and n >= 3:
        # two heralds on the same two modes; photon numbers exchanged; declared ascending in one circuit and
        # descending in the other
        lo, hi = sorted((int(m1), int(m2)))
        pair = []
        for order, nums in (((lo, hi), (0, 1)), ((hi, lo), (0, 1))):
            c = lw.Circuit(n)
            for a, r in steps:
                c.bs(a, a + 1, r)
            for m, ph in zip(order, nums):
                c.herald(ph, m)
            pair.append(c)
        if rng.random() < 0.5:
            pair.reverse()
        return pair
    if rng.random() < 0.5 and n >= 3:
        # identical components and identical *input* herald; only the output herald mode differs
        outs = rng.choice(n, size=2, replace=False).tolist()
        ph = int(rng.integers(0, 2))
        pair = []
        for o in outs:
            c = lw.Circuit(n)
            for a, r in steps:
                c.bs(a, a + 1, r)
            c.herald(ph, m1, int(o))
            pair.append(c)
        return pair
    out = []
    for (m, ph) in ((m1, 0), (m2 if rng.random() < 0.5 else m1, 1 if rng.random() < 0.7 else 0)):
        c = lw.Circuit(n)
        for a, r in steps:
            c.bs(a, a + 1, r)
        c.herald(ph, m)
        out.append(c)
    if out[0].heralds == out[1].heralds:
        c = lw.Circuit(n)
        for a, r in steps:
            c.bs(a, a + 1, r)
        c.herald(1, m1)
        out[1] = c
    return out


def history(ctx, lw, rng, kind):
    emu, State = lw.emulator, lw.State
    n = int(rng.integers(2, 5))
    c, params = param_circuit(lw, rng, n)
    nph = int(rng.integers(1, 3))
    occ = random_state(rng, n, nph)
    trace = [["new", kind, n, occ]]
    ps_obj = None
    if kind == "Sampler":
        obj = emu.Sampler(c, State(occ), backend=str(rng.choice(["permanent", "slos"])))
    else:
        ps_obj = lw.PostSelection(multi_rules=True) if rng.random() < 0.6 else None
        obj = emu.QuickSampler(c, State(occ), photon_counting=bool(rng.random() < 0.7), post_select=ps_obj)
    n_steps = int(rng.integers(5, 41 if ctx.tier == "thorough" else 21))
    # a sibling object sharing the same circuit (and source / detector / post-selection objects): whatever is done to the
    # shared parts through one of them, each must keep answering like a fresh object with the settings it reports
    sibling = None
    if rng.random() < 0.35:
        try:
            if kind == "Sampler":
                sibling = emu.Sampler(obj.circuit, obj.input_state, source=obj.source, detector=obj.detector,
                                      backend=str(rng.choice(["permanent", "slos"])))
            else:
                sibling = emu.QuickSampler(obj.circuit, obj.input_state, photon_counting=obj.photon_counting,
                                           post_select=ps_obj)
            ctx.bucket("sibling_object_shares_parts")
            trace.append(["sibling_created"])
        except Exception as e:  # noqa: BLE001
            ctx.count("sibling_raised:" + type(e).__name__)
    changed_since_obs = None
    nontrivial = False
    if rng.random() < 0.3:
        first = "sample"
    else:
        first = None
    observed_once = False
    for i in range(n_steps):
        reconfig = ["edit", "param", "input", "circuit_same", "circuit_heralds", "herald_in_place", "rejected",
                    "failed_read", "global_threshold"]
        if kind == "Sampler":
            reconfig += ["source_mut", "source_new", "backend", "detector", "detector_between_draws"]
            obs = ["read", "sample", "n_inputs", "n_outputs"]
        else:
            reconfig += ["ps_new", "ps_mut", "counting", "ps_sibling"]
            obs = ["read", "sample", "n_outputs"]
        if i == 0 and first:
            step = first
        else:
            step = str(rng.choice(obs if rng.random() < 0.45 else reconfig))
        trace.append([step])
        try:
            if step == "edit":
                cc = obj.circuit
                nn = cc.n_modes - len(cc._internal_modes)
                kind_e = str(rng.choice(["bs", "ps", "loss", "bs_loss", "swap", "unitary"]))
                if kind_e == "loss":
                    cc.loss(int(rng.integers(nn)), float(rng.uniform(0.1, 0.9)))
                    ctx.bucket("loss_added_in_place")
                elif kind_e == "bs_loss" and nn >= 2:
                    a = int(rng.integers(nn - 1))
                    cc.bs(a, a + 1, float(rng.uniform(0.1, 0.9)), float(rng.uniform(0.1, 0.9)))
                    ctx.bucket("loss_added_in_place")
                elif kind_e == "swap" and nn >= 2:
                    a = int(rng.integers(nn - 1))
                    cc.mode_swaps({a: a + 1, a + 1: a})
                elif kind_e == "unitary":
                    cc.add(lw.Unitary(lw.random_unitary(nn, seed=int(rng.integers(1 << 20)))), 0)
                elif kind_e == "bs" and nn >= 2:
                    a = int(rng.integers(nn - 1))
                    cc.bs(a, a + 1, float(rng.uniform(0.1, 0.9)))
                else:
                    cc.ps(int(rng.integers(nn)), pick_phase(rng))
                changed_since_obs = "circuit_edited_between_reads"
            elif step == "param":
                if params:
                    p = params[int(rng.integers(len(params)))]
                    v = p.get()
                    if rng.random() < 0.3 and isinstance(v, float) and 0.01 < v < 0.99:
                        p.set(v * (1 + float(rng.choice([3e-4, -1e-5, 2e-7]))))
                        ctx.bucket("tiny_reconfiguration")
                    else:
                        p.set(float(rng.uniform(0.05, 0.95)) if 0 <= v <= 1 else pick_phase(rng))
                    changed_since_obs = "param_set_between_reads"
            elif step == "input":
                k = obj.circuit.input_modes
                obj.input_state = State(random_state(rng, k, int(rng.integers(1, 3))))
                changed_since_obs = "input_changed"
            elif step == "herald_in_place":
                cc = obj.circuit
                nn = cc.n_modes - len(cc._internal_modes)
                free = [m for m in range(nn) if cc._map_mode(m) not in cc.heralds["input"]
                        and cc._map_mode(m) not in cc.heralds["output"]]
                if len(free) >= 2 and cc.input_modes >= 2:
                    cc.herald(int(rng.integers(0, 2)), int(rng.choice(free)))
                    new_in = State(random_state(rng, cc.input_modes, int(rng.integers(1, 3))))
                    ctx.bucket("herald_declared_in_place")
                    try:
                        obj.input_state = new_in
                    except Exception as e:  # noqa: BLE001
                        try:        # would a freshly created object accept exactly these settings?
                            (emu.Sampler(cc, new_in) if kind == "Sampler" else emu.QuickSampler(cc, new_in))
                            ctx.violation(f"assigning the input state that matches the circuit's new herald raised "
                                          f"{type(e).__name__}: {e}, but a freshly created {kind} accepts the same circuit "
                                          f"and input", case={"history": trace}, mechanism="reconfiguration_rejected:" + kind,
                                          monitor="fresh-twin (reconfiguration)")
                        except Exception:  # noqa: BLE001
                            pass
                        raise
                    changed_since_obs = "herald_declared_in_place"
            elif step == "circuit_same":
                k = obj.circuit.input_modes
                if rng.random() < 0.4:
                    # same components, different number of loss elements (only the shape of U_full changes)
                    old_c = obj.circuit
                    c2 = old_c.copy()
                    for _ in range(int(rng.integers(1, 3))):
                        c2.loss(int(rng.integers(c2.n_modes - len(c2._internal_modes))), float(rng.uniform(0.05, 0.95)))
                    params = c2.get_all_params()
                    ctx.bucket("circuit_replaced_more_loss")
                else:
                    c2, params = param_circuit(lw, rng, k)
                obj.circuit = c2
                changed_since_obs = "circuit_replaced"
            elif step == "circuit_heralds":
                k = obj.circuit.input_modes
                a, b = same_u_other_heralds(lw, rng, k + 1)
                params = []
                obj.circuit = a
                _ = obj.probability_distribution
                obj.circuit = b
                ctx.bucket("same_U_different_heralds")
                changed_since_obs = "same_U_different_heralds"
            elif step == "source_mut":
                which = str(rng.choice(["brightness", "purity", "indistinguishability"]))
                if rng.random() < 0.4:
                    cur = getattr(obj.source, which)
                    setattr(obj.source, which, max(0.51, cur * (1 - float(rng.choice([4e-4, 1e-5, 3e-7])))))
                    ctx.bucket("tiny_reconfiguration")
                else:
                    setattr(obj.source, which, float(rng.uniform(0.6, 1.0)))
                changed_since_obs = "source_mutated_between_reads"
            elif step == "source_new":
                obj.source = emu.Source(brightness=float(rng.uniform(0.5, 1)))
                changed_since_obs = "source_replaced"
            elif step == "backend":
                obj.backend = "slos" if obj.backend.backend == "permanent" else "permanent"
                ctx.bucket("backend_swapped")
                changed_since_obs = "backend_swapped"
            elif step == "detector":
                if rng.random() < 0.5:
                    obj.detector = emu.Detector(efficiency=float(rng.choice([1, 0.8])), photon_counting=bool(rng.random() < 0.5))
                else:
                    obj.detector.photon_counting = not obj.detector.photon_counting
                changed_since_obs = "detector_changed"
            elif step == "detector_between_draws":
                # an inefficient detector; N outputs are drawn, the detector mode is switched (in place, or by a new detector
                # of the same efficiency), and N outputs are drawn again - each draw judged by the twin
                obj.detector = emu.Detector(efficiency=float(rng.choice([0.5, 0.8, 0.95])), photon_counting=bool(rng.random() < 0.5))
                obj.sample_N_outputs(int(rng.integers(20, 200)), seed=pick_seed(rng))
                if rng.random() < 0.5:
                    obj.detector.photon_counting = not obj.detector.photon_counting
                else:
                    obj.detector = emu.Detector(efficiency=obj.detector.efficiency,
                                                photon_counting=not obj.detector.photon_counting)
                obj.sample_N_outputs(int(rng.integers(20, 200)), seed=pick_seed(rng))
                ctx.bucket("detector_mode_switched_between_two_draws")
                changed_since_obs = "detector_changed"
            elif step == "ps_new":
                k = obj.circuit.input_modes
                ps_obj, _, _ = make_post_selection(lw, rng, k)
                obj.post_select = ps_obj
                changed_since_obs = "postselection_replaced"
            elif step == "ps_sibling":
                # two predicates made by ONE factory: same code object, different captured / default values
                k = obj.circuit.input_modes
                if k > 0:
                    style = str(rng.choice(["closure", "default_argument"]))
                    m1, n1 = int(rng.integers(k)), int(rng.integers(0, 3))
                    obj.post_select = _sibling_predicate(style, m1, n1)
                    try:
                        _ = obj.probability_distribution if rng.random() < 0.8 else None
                    except Exception:  # noqa: BLE001  (a predicate nothing satisfies: the replacement below is judged all the same)
                        pass
                    m2, n2 = (m1, (n1 + 1 + int(rng.integers(2))) % 3) if rng.random() < 0.5 else ((m1 + 1) % k, n1)
                    obj.post_select = _sibling_predicate(style, m2, n2)
                    trace[-1] += [style, m1, n1, m2, n2]
                    ctx.bucket("postselection_replaced_by_sibling_from_one_factory")
                    changed_since_obs = "postselection_replaced"
            elif step == "ps_mut":
                ps = obj.post_select
                if hasattr(ps, "add") and getattr(ps, "multi_rules", False):
                    k = obj.circuit.input_modes
                    _ = obj.probability_distribution if rng.random() < 0.7 else None
                    used_modes = ps.modes
                    if used_modes and rng.random() < 0.6:       # a further rule on a mode that already has one
                        m_add = int(rng.choice(used_modes)) if max(used_modes) < k else int(rng.integers(k))
                        ctx.bucket("postselection_rule_on_ruled_mode")
                    else:
                        m_add = int(rng.integers(k))
                    nums = [(0, 1), (1,), (0,), (1, 2), (0, 2)][int(rng.integers(5))]
                    ps.add(m_add, nums)
                    ctx.bucket("postselection_mutated_in_place")
                    changed_since_obs = "postselection_mutated_in_place"
            elif step == "counting":
                obj.photon_counting = not obj.photon_counting
                changed_since_obs = "detector_mode_toggled"
            elif step == "global_threshold":
                # the library-wide truncation threshold of the emulator is a setting like any other: a fresh object
                # uses its current value, so must a long-lived one (restored at the end of the history)
                lw.settings.sampler_probability_threshold = float(rng.choice([1e-12, 1e-9, 1e-6, 1e-3, 0.02, 0.2]))
                trace[-1].append(lw.settings.sampler_probability_threshold)
                changed_since_obs = "library_threshold_changed"
            elif step == "failed_read":
                # something is reconfigured, then a read *fails* because a Parameter holds a value its component cannot
                # take; the Parameter is put back to exactly its earlier value and the next read must be that of the
                # current configuration (a half-done recalculation may leave no trace)
                cand = [p for p in params if isinstance(p.get(), (int, float)) and not p.has_bounds()]
                if cand:
                    p = cand[int(rng.integers(len(cand)))]
                    v0 = p.get()
                    k = obj.circuit.input_modes
                    what_changed = str(rng.choice(["input", "source", "nothing"])) if kind == "Sampler" else \
                        str(rng.choice(["input", "counting", "nothing"]))
                    if what_changed == "input":
                        obj.input_state = State(random_state(rng, k, int(rng.integers(1, 3))))
                    elif what_changed == "source":
                        obj.source.brightness = float(rng.uniform(0.5, 0.99))
                    elif what_changed == "counting":
                        obj.photon_counting = not obj.photon_counting
                    p.set(float(rng.choice([1.5, -0.3, 7.0])) if 0 <= v0 <= 1 else "not a phase")
                    try:
                        _ = obj.probability_distribution
                        trace[-1].append("read with the invalid value did not fail")
                    except Exception as e_:  # noqa: BLE001
                        trace[-1].append("read failed: " + type(e_).__name__)
                        ctx.bucket("read_failed_then_parameter_restored")
                    p.set(v0)
                    trace[-1].append(what_changed)
                    changed_since_obs = "read_after_failed_read"
            elif step == "rejected":
                # a reconfiguration that must be (or happens to be) refused: afterwards the object must still behave like a
                # fresh one with the settings it *reports* - a refused request may leave no residue
                n_rej = rejected_reconfiguration(ctx, lw, rng, obj, kind, params, trace)
                if n_rej:
                    changed_since_obs = "read_after_rejected_reconfiguration"
            else:
                if not observed_once and step != "read":
                    ctx.bucket("sample_before_read:" + kind)
                observed_once = True
                seed = pick_seed(rng)
                if changed_since_obs:
                    ctx.bucket(changed_since_obs)
                    nontrivial = True
                    changed_since_obs = None
                if step == "read":
                    _ = obj.probability_distribution
                elif step == "sample":
                    obj.sample()
                elif step == "n_inputs":
                    obj.sample_N_inputs(int(rng.integers(1, 200)), seed=seed)
                elif step == "n_outputs":
                    if kind == "Sampler":
                        obj.sample_N_outputs(int(rng.integers(1, 200)), seed=seed)
                    else:
                        obj.sample_N_outputs(int(rng.integers(1, 200)), seed)
        except Exception as e:  # noqa: BLE001 - refusals are outcomes; the twin monitor judges them
            trace[-1].append("raised " + type(e).__name__)
            ctx.count("step_raised:" + type(e).__name__)
        if sibling is not None and rng.random() < 0.3:
            try:
                trace.append(["sibling_" + str(rng.choice(["read", "read", "n_outputs"]))])
                if trace[-1][0] == "sibling_read":
                    _ = sibling.probability_distribution
                elif kind == "Sampler":
                    sibling.sample_N_outputs(50, seed=pick_seed(rng))
                else:
                    sibling.sample_N_outputs(50, pick_seed(rng))
                ctx.bucket("sibling_observed")
            except Exception as e:  # noqa: BLE001
                trace[-1].append("raised " + type(e).__name__)
                ctx.count("sibling_step_raised:" + type(e).__name__)
        for ob in circmon.drain():
            if ob["prop"] == "C11":
                ctx.violation(ob["what"], case={"history": trace}, witness=ob["witness"],
                              mechanism=ob["mechanism"], monitor=ob["monitor"])
            else:
                ctx.count("other_property_observations:" + ob["prop"])
    lw.settings.sampler_probability_threshold = 1e-9
    ctx.case((kind, tuple(t[0] for t in trace[1:])), nontrivial, sample={"history": trace})


def rejected_reconfiguration(ctx, lw, rng, obj, kind, params, trace):
    """Makes 1-3 requests that a sampler is expected to refuse. Requests that are accepted after all are ordinary
    reconfigurations (the twin follows the reported settings). Returns the number of requests that raised."""
    emu, State = lw.emulator, lw.State
    n_raised = 0
    for _ in range(int(rng.integers(1, 4))):
        opts = ["input_len", "input_type", "circuit_type", "edit_out_of_range", "edit_bad_value", "param_out_of_bounds"]
        if kind == "Sampler":
            opts += ["source_value"] * 6 + ["source_type", "backend_name", "detector_type", "detector_value",
                                            "n_inputs_bad_args"]
        else:
            opts += ["post_select_type", "ps_rule_bad", "counting_type"]
        what = str(rng.choice(opts))
        bad_unit = [1.5, -0.2, float("nan"), float("inf"), 1 + 1e-9, -1e-12, "0.9", None, True, 2, [0.9]]
        try:
            if what == "input_len":
                k = obj.circuit.input_modes
                obj.input_state = State([1] + [0] * (k if rng.random() < 0.5 else max(0, k - 2)))
            elif what == "input_type":
                obj.input_state = [1, 0, 0][:max(1, obj.circuit.input_modes)] if rng.random() < 0.5 else None
            elif what == "circuit_type":
                obj.circuit = rng.choice([None, 3, "circuit"]) if rng.random() < 0.7 else np.eye(obj.circuit.n_modes)
            elif what == "edit_out_of_range":
                cc = obj.circuit
                nn = cc.n_modes - len(cc._internal_modes)
                r = rng.random()
                if r < 0.3:
                    cc.bs(nn - 1, nn, 0.3)
                elif r < 0.5:
                    cc.ps(nn, 0.4)
                elif r < 0.7:
                    cc.loss(-nn - 1, 0.2)
                elif r < 0.85:
                    cc.mode_swaps({0: nn})
                else:
                    cc.add(lw.Unitary(lw.random_unitary(nn + 1, seed=3)), 0)
            elif what == "edit_bad_value":
                cc = obj.circuit
                nn = cc.n_modes - len(cc._internal_modes)
                r = rng.random()
                if r < 0.35 and nn >= 2:
                    cc.bs(0, 1, float(rng.choice([1.5, -0.1, float("nan")])))
                elif r < 0.6:
                    cc.loss(0, float(rng.choice([1.5, -0.1, float("nan")])))
                elif r < 0.8 and nn >= 2:
                    cc.bs(0, 1, 0.5, float(rng.choice([1.5, -0.1])))
                else:
                    cc.ps(0, 0.3, float(rng.choice([1.5, -0.1])))
            elif what == "param_out_of_bounds":
                if not params:
                    continue
                p = params[int(rng.integers(len(params)))]
                if p.has_bounds():
                    p.set(p.max_bound + float(rng.choice([1e-9, 0.5, 10])))
                else:
                    p.set(rng.choice(["x", None]) if rng.random() < 0.5 else [0.3])
            elif what == "source_value":
                which = str(rng.choice(["brightness", "purity", "indistinguishability", "probability_threshold"]))
                v = bad_unit[int(rng.integers(len(bad_unit)))]
                if which == "purity" and rng.random() < 0.4:
                    v = float(rng.choice([0.5, 0.3, 0.0, 0.5 - 1e-12]))
                trace[-1].append([which, repr(v)])
                if which != "probability_threshold" and rng.random() < 0.6:
                    # (the setting is first given an ordinary non-ideal value, so that residue of the refused request shows)
                    setattr(obj.source, which, float(rng.uniform(0.6, 0.95)))
                setattr(obj.source, which, v)
            elif what == "source_type":
                obj.source = rng.choice([0.9, "source", 1]) if rng.random() < 0.7 else emu.Detector()
            elif what == "backend_name":
                obj.backend = rng.choice(["clifford", "Permanent", "", "perm", 3])
            elif what == "detector_type":
                obj.detector = rng.choice([0.9, "detector", 1]) if rng.random() < 0.7 else emu.Source()
            elif what == "detector_value":
                which = str(rng.choice(["efficiency", "p_dark", "photon_counting"]))
                v = bad_unit[int(rng.integers(len(bad_unit)))] if which != "photon_counting" else rng.choice([2, "yes", None, 0.5])
                trace[-1].append([which, repr(v)])
                setattr(obj.detector, which, v)
            elif what == "n_inputs_bad_args":
                r = rng.random()
                if r < 0.3:
                    obj.sample_N_inputs(-1)
                elif r < 0.5:
                    obj.sample_N_inputs(2.5)
                elif r < 0.7:
                    obj.sample_N_inputs(10, seed="seed")
                elif r < 0.85:
                    obj.sample_N_inputs(10, post_select=3)
                else:
                    obj.sample_N_outputs(10, min_detection="1")
            elif what == "post_select_type":
                obj.post_select = rng.choice([3, "rule", 0.5]) if rng.random() < 0.7 else [1, 2]
            elif what == "ps_rule_bad":
                ps = obj.post_select
                if not hasattr(ps, "add"):
                    continue
                r = rng.random()
                if r < 0.3:
                    ps.add(0.5, 1)
                elif r < 0.6:
                    ps.add(0, 1.5)
                elif r < 0.8:
                    ps.add((0, "1"), 1)
                else:
                    ps.add(0, ("a",))
            elif what == "counting_type":
                obj.photon_counting = rng.choice([2, "yes", None, 0.5])
            trace[-1].append(what + ": accepted")
            ctx.bucket("odd_reconfiguration_accepted:" + what)
        except Exception as e:  # noqa: BLE001
            n_raised += 1
            trace[-1].append(what + ": raised " + type(e).__name__)
            ctx.bucket("reconfiguration_rejected:" + what)
    if n_raised:
        ctx.bucket("reconfiguration_rejected")
    return n_raised


def leaky_unitary(rng, n, j):
    """A unitary whose column j sends a photon to every other mode with a probability just below the documented 1e-9
    per-state truncation, so that the *sum* of what the sampler drops exceeds numpy's 1.5e-8 normalisation tolerance
    (the situation sample_N_inputs' re-normalisation fallback exists for)."""
    a = np.sqrt(9e-10 * rng.uniform(0.8, 1.0, size=n)) * np.exp(1j * rng.uniform(0, 2 * np.pi, size=n))
    a[0] = 0
    a[0] = np.sqrt(1 - np.sum(np.abs(a) ** 2))
    m = rng.normal(size=(n, n)) + 1j * rng.normal(size=(n, n))
    m[:, 0] = a
    q, r = np.linalg.qr(m)
    q = q * (r[0, 0] / abs(r[0, 0]))        # first column equal to a again
    perm = list(range(n))
    perm[0], perm[j] = perm[j], perm[0]
    return q[perm][:, perm]


def truncation_history(ctx, lw, rng):
    """Observations only, on a sampler whose truncated distribution is visibly not normalised: no observation may change
    what a later one reports."""
    emu, State = lw.emulator, lw.State
    n = int(rng.integers(24, 31))
    j = int(rng.integers(n))
    c = lw.Unitary(leaky_unitary(rng, n, j))
    occ = [0] * n
    occ[j] = 1
    trace = [["new", "Sampler", n, occ, "column with 1e-9-sized leaks"]]
    obj = emu.Sampler(c, State(occ), backend=str(rng.choice(["permanent", "slos"])))
    ctx.bucket("truncated_mass_above_numpy_tolerance")
    for _ in range(int(rng.integers(3, 9))):
        step = str(rng.choice(["read", "n_inputs", "n_outputs", "sample", "n_inputs"]))
        trace.append([step])
        try:
            if step == "read":
                d = obj.probability_distribution
                if abs(sum(d.values()) - 1) < 1.5e-8:
                    ctx.count("truncation_history_total_within_numpy_tolerance")
            elif step == "sample":
                obj.sample()
            elif step == "n_inputs":
                obj.sample_N_inputs(int(rng.integers(1, 50)), seed=pick_seed(rng))
            else:
                obj.sample_N_outputs(int(rng.integers(1, 50)), seed=pick_seed(rng))
        except Exception as e:  # noqa: BLE001
            trace[-1].append("raised " + type(e).__name__)
            ctx.count("step_raised:" + type(e).__name__)
        drain_into(ctx, {"history": trace})
    ctx.case(("Sampler-truncation", tuple(t[0] for t in trace[1:])), True, sample={"history": trace})


def analyzer_history(ctx, lw, rng):
    emu, State = lw.emulator, lw.State
    n = int(rng.integers(2, 5))
    c, params = param_circuit(lw, rng, n)
    an = emu.Analyzer(c)
    trace = [["new", "Analyzer", n]]
    had_expected = False
    for _ in range(int(rng.integers(2, 8))):
        ins = [State(random_state(rng, n, 1)) for _ in range(int(rng.integers(1, 3)))]
        ins = list(dict.fromkeys(ins))
        with_exp = bool(rng.random() < 0.5)
        expected = {s: State(random_state(rng, n, 1)) for s in ins} if with_exp else None
        if rng.random() < 0.4 and params:
            params[0].set(float(rng.uniform(0.1, 0.9)) if 0 <= params[0].get() <= 1 else pick_phase(rng))
            trace.append(["param"])
        trace.append(["analyze", [s.s for s in ins], with_exp])
        if not with_exp and had_expected:
            ctx.bucket("analyze_without_expected_after_expected")
        had_expected = had_expected or with_exp
        try:
            an.analyze(ins, expected)
        except Exception as e:  # noqa: BLE001
            ctx.count("step_raised:" + type(e).__name__)
        drain_into(ctx, {"history": trace})
    ctx.case(("Analyzer", tuple(str(t[0]) + str(t[-1]) for t in trace[1:])), True, sample={"history": trace})


def run(ctx):
    lw = setup(ctx)
    emumon.install()
    twinmon.install()
    rng = ctx.rng
    while not ctx.out_of_time():
        r = rng.random()
        if r < 0.04:
            truncation_history(ctx, lw, rng)
        elif r < 0.45:
            history(ctx, lw, rng, "Sampler")
        elif r < 0.85:
            history(ctx, lw, rng, "QuickSampler")
        else:
            analyzer_history(ctx, lw, rng)
    merge_stats(ctx)
