"""C17 - result containers index consistently and mappings conserve weight.

Deciding monitors: post-condition on ``SimulationResult.__init__`` (fires for
every result created anywhere), on ``SamplingResult.__init__``, and on the
threshold / parity mappings of both containers (image keys, merged weights,
per-input totals, preserved inputs, array/outputs order, refusal for
amplitudes, idempotence / involution structure under repeated application)."""
from __future__ import annotations

import functools

import numpy as np

from .. import circmon
from .c03 import random_state
from .common import drain_into, merge_stats, setup

PROPERTY = "C17"
RULE = ("seeded random result contents: 1-6 distinct inputs, 1-20 distinct outputs over 1-6 modes with occupations 0-4, "
        "real and complex values, zero rows, many colliding images, both mapping kinds x both invert settings, repeated "
        "application; distinct = (container, mapping, invert, collision class, value type, shape); non-trivial = at "
        "least two pre-images merge or a row is empty")
MANDATORY = ["preimages_merge", "empty_row", "amplitude_refused", "sampling_result", "simulation_result",
             "repeated_application", "complex_values", "tiny_weights",
             "result_viewed_before_further_use"]
DECIDING = ["mon.simres_init_postconditions", "mon.mapping_postconditions", "mon.sampres_init_postconditions",
            "mon.view_postconditions", "mon.dataframe_postconditions"]
BUDGET = {"quick": 20, "thorough": 300}
ASSUMPTIONS = ["weights and per-input totals preserved to 1e-12 relative to the L1 norm of the row (tables at scales "
               "from 1e-12 to 1e3 are generated)"]


def thr(s, invert):
    v = [1 if x >= 1 else 0 for x in s]
    return tuple(1 - x for x in v) if invert else tuple(v)


def par(s, invert):
    return tuple(1 - (x % 2) for x in s) if invert else tuple(x % 2 for x in s)


def install(lw):
    emu = lw.emulator
    SR, SM = emu.results.SimulationResult, emu.results.SamplingResult
    if getattr(SR, "_lwverif", False):
        return
    State = lw.State
    oi = SR.__init__

    @functools.wraps(oi)
    def init(self, results, result_type, inputs, outputs, **kw):
        oi(self, results, result_type, inputs, outputs, **kw)
        try:
            circmon.STATS["simres_init_postconditions"] += 1
            arr = self.array
            if list(self.inputs) != list(inputs) or list(self.outputs) != list(outputs):
                circmon.report("C17", "SimulationResult.inputs/outputs differ from what it was built with",
                               monitor="SimulationResult.__init__", mechanism="simres_lists")
            # (keyed by the occupation lists themselves, not by State.__eq__ / __hash__, which are under test too)
            def occ_(st_):
                return tuple(int(x_) for x_ in st_)
            last_i = {occ_(s): k for k, s in enumerate(self.inputs)}
            last_o = {occ_(s): k for k, s in enumerate(self.outputs)}
            for i in self.inputs:
                # the documented one-element / (input, None) forms of pair indexing give the whole row
                if dict(self[(i,)]) != dict(self[i]) or dict(self[i, None]) != dict(self[i]):
                    circmon.report("C17", f"r[(i,)] / r[i, None] differ from r[i] for i={i}",
                                   monitor="SimulationResult.__init__", mechanism="simres_index")
                    return
            for k, i in enumerate(self.inputs):
                for l, o in enumerate(self.outputs):
                    # with duplicate states in a list the dictionary keeps the last one
                    want = arr[last_i[occ_(i)], last_o[occ_(o)]]
                    a, b = self[i, o], self[i][o]
                    if not (a == want or (a != a and want != want)) or not (b == want or (b != b and want != want)):
                        circmon.report("C17", f"r[i,o]={a!r}, r[i][o]={b!r}, array[{k},{l}]={arr[k, l]!r} for "
                                              f"i={i}, o={o}", monitor="SimulationResult.__init__",
                                       mechanism="simres_index")
                        return
        except Exception as e:  # noqa: BLE001
            circmon.STATS["simres_monitor_error:" + type(e).__name__] += 1

    SR.__init__ = init
    si = SM.__init__

    @functools.wraps(si)
    def sinit(self, results, input, **kw):  # noqa: A002
        given = dict(results)
        si(self, results, input, **kw)
        try:
            circmon.STATS["sampres_init_postconditions"] += 1
            if dict(self) != given or list(self.outputs) != list(given.keys()) or self.input != input \
                    or len(dict(self)) != len({tuple(int(x_) for x_ in s_) for s_ in results}):
                circmon.report("C17", "SamplingResult does not return the counts it was built from",
                               monitor="SamplingResult.__init__", mechanism="sampres_counts")
            for s, v in given.items():
                if self[s] != v:
                    circmon.report("C17", f"SamplingResult[{s}] = {self[s]!r}, built with {v!r}",
                                   monitor="SamplingResult.__init__", mechanism="sampres_counts")
                    break
        except Exception as e:  # noqa: BLE001
            circmon.STATS["sampres_monitor_error:" + type(e).__name__] += 1

    SM.__init__ = sinit

    def wrap_mapping(cls, name, fn, is_sim):
        orig = getattr(cls, name)

        @functools.wraps(orig)
        def w(self, invert=False):
            if is_sim and self.result_type == "probability_amplitude":
                try:
                    res = orig(self, invert)
                except ValueError:
                    circmon.STATS["mapping_amplitude_refusals"] += 1
                    raise
                circmon.report("C17", f"{name} accepted an amplitude-valued result", monitor=name + " post-condition",
                               mechanism="mapping_amplitude_accepted:" + name)
                return res
            before_items = ([(i, dict(self[i])) for i in self.inputs] if is_sim else dict(self))
            before_arr = np.array(self.array, copy=True) if is_sim else None
            before_lists = (list(self.inputs), list(self.outputs)) if is_sim else None
            res = orig(self, invert)
            try:
                after_items = ([(i, dict(self[i])) for i in self.inputs] if is_sim else dict(self))
                if is_sim and (not np.array_equal(before_arr, self.array, equal_nan=True)
                               or before_lists != (list(self.inputs), list(self.outputs))):
                    circmon.report("C17", f"{name} changed the array / state lists of the result it was applied to "
                                          f"(its array no longer matches its indexed values)",
                                   monitor=name + " post-condition", mechanism="mapping_changed_original_array:" + name)
                if repr(after_items) != repr(before_items):
                    circmon.report("C17", f"{name} changed the result it was applied to", monitor=name + " post-condition",
                                   mechanism="mapping_changed_original:" + name)
                circmon.STATS["mapping_postconditions"] += 1
                rows = [(i, dict(self[i])) for i in self.inputs] if is_sim else [(None, dict(self))]
                for i, row in rows:
                    want: dict = {}
                    for o, v in row.items():
                        k = fn(list(o), invert)
                        want[k] = want.get(k, 0) + v
                    got_row = dict(res[i]) if is_sim else dict(res)
                    got = {tuple(s): v for s, v in got_row.items()}
                    if is_sim:
                        got = {k: v for k, v in got.items() if k in want or v != 0}
                    if set(got) != set(want):
                        circmon.report("C17", f"{name}(invert={invert}): image keys {sorted(got)} expected "
                                              f"{sorted(want)}", monitor=name + " post-condition",
                                       mechanism="mapping_keys:" + name)
                        return res
                    l1 = sum(abs(v) for v in row.values())
                    for k in want:
                        if abs(got[k] - want[k]) > 1e-12 * l1 + 1e-300:
                            circmon.report("C17", f"{name}(invert={invert}): weight of {list(k)} is {got[k]!r}, the "
                                                  f"pre-images sum to {want[k]!r}", monitor=name + " post-condition",
                                           mechanism="mapping_weight:" + name)
                            return res
                    if abs(sum(got.values()) - sum(row.values())) > 1e-12 * l1 + 1e-300:
                        circmon.report("C17", f"{name}: total of input {i} changed", monitor=name + " post-condition",
                                       mechanism="mapping_total:" + name)
                if is_sim:
                    if list(res.inputs) != list(self.inputs) or res.result_type != self.result_type:
                        circmon.report("C17", f"{name}: inputs / result type not preserved",
                                       monitor=name + " post-condition", mechanism="mapping_inputs:" + name)
                elif res.input != self.input:
                    circmon.report("C17", f"{name}: input not preserved", monitor=name + " post-condition",
                                   mechanism="mapping_inputs:" + name)
            except Exception as e:  # noqa: BLE001
                circmon.STATS["mapping_monitor_error:" + type(e).__name__] += 1
            return res

        setattr(cls, name, w)

    for cls, is_sim in ((SR, True), (SM, False)):
        wrap_mapping(cls, "apply_threshold_mapping", thr, is_sim)
        wrap_mapping(cls, "apply_parity_mapping", par, is_sim)

    # --- read-only views: printing, tabulating and plotting a result must leave it returning what it was built from,
    #     and the table must hold the result's values in the order of its state lists ---------------------------------
    def fingerprint(self, is_sim):
        if is_sim:
            return (np.array(self.array, copy=True), [tuple(int(x) for x in s) for s in self.inputs],
                    [tuple(int(x) for x in s) for s in self.outputs], self.result_type,
                    repr([(tuple(i), [(tuple(o), v) for o, v in dict(self[i]).items()]) for i in self.inputs]))
        return (None, tuple(int(x) for x in self.input), [tuple(int(x) for x in s) for s in self.outputs], None,
                repr([(tuple(o), v) for o, v in dict(self).items()]))

    def same(a, b):
        return ((a[0] is None or (a[0].shape == b[0].shape and a[0].dtype == b[0].dtype
                                  and np.array_equal(a[0], b[0], equal_nan=True))) and a[1:] == b[1:])

    def wrap_view(cls, name, is_sim):
        orig = getattr(cls, name)

        @functools.wraps(orig)
        def w(self, *a, **kw):
            try:
                before = fingerprint(self, is_sim)
            except Exception:  # noqa: BLE001
                before = None
            res = orig(self, *a, **kw)
            try:
                if before is not None:
                    circmon.STATS["view_postconditions"] += 1
                    if not same(before, fingerprint(self, is_sim)):
                        circmon.report("C17", f"{cls.__name__}.{name} changed the result it displays (its array / "
                                              f"indexed values are no longer what it was built from)",
                                       monitor=name + " post-condition", mechanism="view_changed_result:" + name)
                if name == "display_as_dataframe" and before is not None:
                    threshold = kw.get("threshold", a[0] if a else 1e-12)
                    conv = bool(kw.get("conv_to_probability", a[1] if len(a) > 1 else False)) if is_sim else False
                    if is_sim:
                        data = np.array(before[0], dtype=complex)
                        amp = before[3] == "probability_amplitude"
                        rows, cols = [str(s) for s in self.inputs], [str(s) for s in self.outputs]
                    else:
                        data = np.array([[complex(v) for v in dict(self).values()]], dtype=complex)
                        if not np.all(data.imag == 0) or not np.all(data.real == np.round(data.real)):
                            # a sampling result holds counts; the table shows them as integers. What it does with
                            # non-integer "counts" (the repository's own tests build such results) is not judged.
                            circmon.STATS["dataframe_of_non_integer_counts_not_judged"] += 1
                            return res
                        amp = False
                        rows, cols = [str(self.input)], [str(s) for s in self.outputs]
                    if amp and conv:
                        data = abs(data) ** 2 + 0j
                    re_, im_ = data.real.copy(), data.imag.copy()
                    re_[abs(re_) <= threshold] = 0
                    im_[abs(im_) <= threshold] = 0
                    want = re_ + 1j * im_
                    if not amp or conv:
                        want = abs(want)
                    got = np.asarray(res.values)
                    circmon.STATS["dataframe_postconditions"] += 1
                    if got.shape != want.shape or list(res.index) != rows or list(res.columns) != cols:
                        circmon.report("C17", f"display_as_dataframe: shape / labels {got.shape} {list(res.index)[:3]} "
                                              f"{list(res.columns)[:3]} do not follow the result's state lists",
                                       monitor="display_as_dataframe post-condition", mechanism="dataframe_labels")
                    elif want.size and not np.allclose(got, want, rtol=1e-12, atol=0, equal_nan=True):
                        k_, l_ = np.argwhere(~np.isclose(got, want, rtol=1e-12, atol=0, equal_nan=True))[0]
                        circmon.report("C17", f"display_as_dataframe: entry [{k_},{l_}] is {got[k_, l_]!r}, the result "
                                              f"holds {want[k_, l_]!r} there (threshold {threshold})",
                                       monitor="display_as_dataframe post-condition", mechanism="dataframe_values")
            except Exception as e:  # noqa: BLE001
                circmon.STATS["view_monitor_error:" + type(e).__name__] += 1
            return res

        setattr(cls, name, w)

    for cls, is_sim in ((SR, True), (SM, False)):
        for name in ("display_as_dataframe", "print_outputs", "plot"):
            if hasattr(cls, name):
                wrap_view(cls, name, is_sim)
    SR._lwverif = True


def run(ctx):
    lw = setup(ctx, warm=False)
    install(lw)
    rng = ctx.rng
    State = lw.State
    SR, SM = lw.emulator.results.SimulationResult, lw.emulator.results.SamplingResult
    while not ctx.out_of_time():
        k = int(rng.integers(1, 7)) if rng.random() < 0.95 else int(rng.choice([0, 9, 12]))
        max_occ = int(rng.choice([1, 2, 4, 9, 9, 12, 30, 111]))      # (two-digit occupations: |1,20> is not |12,0>)
        n_in = int(rng.integers(1, 7))
        n_out = int(rng.integers(1, 21))

        state_form = str(rng.choice(["ints", "ints", "ints", "np.int64 list", "ndarray", "tuple"]))
        ctx.bucket("states_built_from:" + state_form)

        wide = rng.random() < 0.06
        if wide:
            # wide registers: states that differ only on a few 'hot' modes, among them the highest-numbered ones
            k = int(rng.choice([31, 32, 33, 63, 64, 65, 66, 70, 100, 130]))
            base_occ = (rng.random(k) < 0.1).astype(int) * rng.integers(1, max_occ + 1, size=k)
            hot = np.unique(np.concatenate([rng.choice(k, size=3), [k - 1, k - 2, 0], rng.choice(np.arange(k // 2, k), size=2)]))
            ctx.bucket("wide_states")
            if k > 64:
                ctx.bucket("states_wider_than_64_modes")

        def rs():
            occ = rng.integers(0, max_occ + 1, size=k)
            if wide:
                occ = base_occ.copy()
                occ[hot] = rng.integers(0, max_occ + 1, size=len(hot))
            if state_form == "np.int64 list":
                return State([np.int64(x) for x in occ])
            if state_form == "ndarray":
                return State(np.array(occ))
            if state_form == "tuple":
                return State(tuple(int(x) for x in occ))
            return State([int(x) for x in occ])
        def uniq(states):
            # distinct by occupation list - decided here, not by the State class under test
            seen_, out_ = set(), []
            for st_ in states:
                key_ = tuple(int(x_) for x_ in st_)
                if key_ not in seen_:
                    seen_.add(key_)
                    out_.append(st_)
            return out_
        ins = uniq(rs() for _ in range(n_in))
        outs = uniq(rs() for _ in range(n_out))
        if not wide and k >= 2 and rng.random() < 0.05:
            from ..gen import confusable_occupations
            fam = [State(o) for o in confusable_occupations(rng, k)]
            if len(fam) >= 2:
                outs = uniq(outs[: max(1, n_out // 2)] + fam)
                if rng.random() < 0.5:
                    ins = uniq(ins[:1] + fam[:2])
                ctx.bucket("states_whose_digits_read_the_same")
        kind = str(rng.choice(["probability", "probability", "probability_amplitude"]))
        cplx = kind == "probability_amplitude"   # complex values only make sense as amplitudes
        arr = rng.random((len(ins), len(outs)))
        scale = float(rng.choice([1.0, 1.0, 1e-3, 1e-6, 1e-9, 1e-12, 1e3]))
        arr = arr * scale
        if scale <= 1e-6:
            ctx.bucket("tiny_weights")
        if rng.random() < 0.2 and arr.size:
            # a few isolated very small weights in an otherwise ordinary table
            idx = rng.integers(0, arr.size, size=max(1, arr.size // 4))
            arr.flat[idx] = rng.random(len(idx)) * 1e-9
            ctx.bucket("tiny_weights")
        if cplx:
            arr = arr + 1j * rng.normal(size=arr.shape)
            ctx.bucket("complex_values")
        empty_row = False
        if rng.random() < 0.3:
            arr[int(rng.integers(len(ins)))] = 0
            empty_row = True
            ctx.bucket("empty_row")
        mapping = str(rng.choice(["apply_threshold_mapping", "apply_parity_mapping"]))
        invert = bool(rng.random() < 0.5)
        # the flag in the forms a caller may hold it in (a Python bool, 0/1, the result of a numpy comparison)
        inv_form = str(rng.choice(["bool", "bool", "int", "np.bool_"]))
        inv_arg = {"bool": invert, "int": int(invert), "np.bool_": np.bool_(invert)}[inv_form]
        ctx.bucket("invert_given_as:" + inv_form)
        fn = thr if "threshold" in mapping else par
        images = [fn(list(o), invert) for o in outs]
        merges = len(images) - len(set(images))
        if merges:
            ctx.bucket("preimages_merge")
        case = {"inputs": [[int(x) for x in s.s] for s in ins], "outputs": [[int(x) for x in s.s] for s in outs], "type": kind,
                "mapping": mapping, "invert": invert, "invert_given_as": inv_form, "states_built_from": state_form}
        container = "sim" if rng.random() < 0.6 else "samp"
        look = rng.random() < 0.35 and not (wide and k > 40)

        def views(res_, is_sim_):
            # what a user does with a result before going on: print it, tabulate it, plot it (monitored, see install)
            import contextlib, io  # noqa: PLC0415, E401
            ctx.bucket("result_viewed_before_further_use")
            with contextlib.redirect_stdout(io.StringIO()):
                if rng.random() < 0.5:
                    res_.print_outputs(*([int(rng.integers(0, 8))] if is_sim_ and rng.random() < 0.5 else []))
                if rng.random() < 0.8:
                    kw_ = {}
                    if rng.random() < 0.4:
                        kw_["threshold"] = float(rng.choice([0.0, 1e-12, 1e-7, 0.3]))
                    if is_sim_ and rng.random() < 0.5:
                        kw_["conv_to_probability"] = bool(rng.random() < 0.7)
                    res_.display_as_dataframe(**kw_)
                if rng.random() < 0.04 and len(res_.outputs) <= 12 and k <= 8:
                    import matplotlib.pyplot as plt  # noqa: PLC0415
                    if is_sim_:
                        res_.plot(show=False, conv_to_probability=bool(rng.random() < 0.5))
                    else:
                        res_.plot(show=False)
                    plt.close("all")
                    ctx.bucket("result_plotted")
        try:
            if container == "sim":
                ctx.bucket("simulation_result")
                r = SR(arr, kind, inputs=ins, outputs=outs)
                if look:
                    views(r, True)
                if kind == "probability_amplitude":
                    ctx.bucket("amplitude_refused")
                    try:
                        getattr(r, mapping)(inv_arg)
                    except ValueError:
                        pass
                else:
                    m1 = getattr(r, mapping)(inv_arg)
                    if look and rng.random() < 0.5:
                        views(m1, True)
                    if rng.random() < 0.6:
                        ctx.bucket("repeated_application")
                        m2 = getattr(m1, mapping)(invert=inv_arg)
                        if "threshold" in mapping and not invert:
                            # idempotent
                            for i in ins:
                                a, b = {tuple(s): v for s, v in m1[i].items()}, {tuple(s): v for s, v in m2[i].items()}
                                if a != b:
                                    ctx.violation("threshold mapping is not idempotent", case=case,
                                                  mechanism="threshold_idempotence", monitor="repeated application")
                                    break
                        other = "apply_parity_mapping" if "threshold" in mapping else "apply_threshold_mapping"
                        getattr(m1, other)(not invert)
            else:
                ctx.bucket("sampling_result")
                counts = {o: int(v) for o, v in zip(outs, rng.integers(0, 1000, size=len(outs)))}
                r = SM(counts, ins[0])
                if look:
                    views(r, False)
                m1 = getattr(r, mapping)(inv_arg)
                if look and rng.random() < 0.5:
                    views(m1, False)
                if rng.random() < 0.6:
                    ctx.bucket("repeated_application")
                    getattr(m1, mapping)(invert=inv_arg)
                    getattr(m1, "apply_parity_mapping")(not invert)
        except Exception as e:  # noqa: BLE001
            ctx.violation(f"{container} {mapping} raised {type(e).__name__}: {e}", case=case,
                          mechanism="result_raised:" + type(e).__name__, monitor="driver")
        cclass = 0 if merges == 0 else (1 if merges < 3 else 2)
        ctx.case((container, mapping, invert, cclass, cplx, k, len(ins), len(outs), max_occ, empty_row),
                 merges > 0 or empty_row, sample=case)
        drain_into(ctx, case)
    merge_stats(ctx)
