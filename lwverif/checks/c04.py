"""C04 - sampler distribution is normalised, exact and the same for both backends.

Deciding monitors: post-conditions on ``Backend.full_probability_distribution``
and on the ``Sampler.probability_distribution`` getter (ideal source) against
the own loss-summed Fock-space reference; the driver reads both backends on
the same circuit/input and checks they agree."""
from __future__ import annotations

import numpy as np

from .. import boson, circmon, emumon
from ..gen import Builder, equivalent_variant
from .c03 import random_state
from .common import drain_into, merge_stats, setup, too_big

PROPERTY = "C04"
RULE = ("seeded random circuits (2-6 modes, 0-4 loss elements anywhere incl. loss 0 and 1, with/without "
        "heralded sub-circuits and direct heralds) x inputs (vacuum, single, bunched, <=4 photons) x both "
        "backends; distinct = (lossy?, #loss modes, photon number, bunched?, heralded?, modes); non-trivial = "
        "lossy or bunched or heralded")
MANDATORY = ["lossy_slos", "lossy_permanent", "vacuum_input", "total_loss_element", "bunched_input",
             "heralded", "lossless", "seven_or_more_modes", "other_sampler_defaults_edited_in_place", "herald_declared_in_place"]
DECIDING = ["mon.sampler_dist_postconditions", "mon.backend_dist_postconditions:slos",
            "mon.backend_dist_postconditions:permanent", "cross_backend_comparisons", "end_to_end_comparisons"]
BUDGET = {"quick": 25, "thorough": 420}
ASSUMPTIONS = ["reference = own permanent over the circuit's own U_full, summed over loss-mode patterns; in addition the "
               "heralded visible distribution is compared with the one the wire model of the construction history gives",
               "allowed deviation per entry and for the total: 1e-9 x (number of full output patterns) + 1e-9, "
               "the documented per-state truncation"]


def many_photons(ctx, lw, rng):
    """Many photons bunched on the 2-3 modes of a small (possibly lossy) circuit: occupation factorials beyond 2**63.
    Judged by the distribution post-conditions (normalisation, sign, photon number, values against the
    polynomial-expansion reference); both backends up to 14 photons, above that 'slos' only (a 2^n permanent per
    output pattern is out of reach)."""
    State, emu = lw.State, lw.emulator
    from ..gen import haar
    k = int(rng.choice([2, 2, 3]))
    c = lw.Unitary(haar(rng, k))
    log = [["unitary", k]]
    if rng.random() < 0.4:
        c.loss(int(rng.integers(k)), float(rng.uniform(0.05, 0.6)))
        log.append(["loss"])
    total = int(rng.choice([8, 10, 12, 13, 14, 16, 18, 21, 22, 26] if k == 2 else [8, 10, 12, 13, 14, 16]))
    occ = [0] * k
    a = int(rng.integers(k))
    cut = int(rng.integers(0, total // 2 + 1))
    occ[a] = total - cut
    occ[int(rng.choice([i for i in range(k) if i != a]))] = cut
    case = {"circuit": log, "input": occ}
    ctx.bucket("many_bunched_photons")
    dists = {}
    for backend in (("permanent", "slos") if total <= 14 else ("slos",)):
        if backend == "slos" and total >= 13:
            ctx.bucket("slos_occupation_factorials_beyond_63_bits")
        try:
            d = emu.Sampler(c, State(occ), backend=backend).probability_distribution
            dists[backend] = {tuple(st): p for st, p in d.items()}
        except Exception as e:  # noqa: BLE001
            ctx.violation(f"Sampler({backend}).probability_distribution raised {type(e).__name__}: {e}", case=case,
                          mechanism="distribution_raised:" + type(e).__name__, monitor="driver")
    if len(dists) == 2:
        ctx.count("cross_backend_comparisons")
        keys = set(dists["permanent"]) | set(dists["slos"])
        worst = max((abs(dists["permanent"].get(q, 0) - dists["slos"].get(q, 0)) for q in keys), default=0)
        if worst > 2e-9 * boson.n_fock(c.U_full.shape[0], total) + 1e-9:
            ctx.violation(f"permanent and slos distributions differ by {worst:.3g}", case=case,
                          mechanism="backends_disagree", monitor="cross-backend comparison")
    ctx.case(("many", k, tuple(sorted(occ)), len(log)), True, sample=case)
    drain_into(ctx, case)


def large_basis(ctx, lw, rng):
    """Distributions over 300 - 1400 full output patterns: a 9-12 mode unitary (optionally one loss element) with heralds
    carrying photons, 3-4 photons in total; both backends, judged by the distribution post-conditions."""
    State, emu = lw.State, lw.emulator
    from ..gen import haar
    n = int(rng.choice([9, 10, 11, 12]))
    c = lw.Unitary(haar(rng, n))
    log = [["unitary", n]]
    hp = 0
    for m_ in rng.choice(n, size=int(rng.integers(0, 3)), replace=False):
        nh_ = int(rng.choice([0, 1]))
        c.herald(nh_, int(m_)); log.append(["herald", nh_, int(m_)]); hp += nh_
    if rng.random() < 0.3 and n <= 10:
        c.loss(int(rng.integers(c.input_modes)), float(rng.uniform(0.05, 0.5))); log.append(["loss"])
    nph = (3 if n >= 11 else int(rng.choice([3, 4]))) - hp
    occ = random_state(rng, c.input_modes, max(nph, 1))
    case = {"circuit": log, "input": occ}
    ctx.bucket("large_output_basis")
    dists = {}
    for backend in ("permanent", "slos"):
        try:
            d = emu.Sampler(c, State(occ), backend=backend).probability_distribution
            dists[backend] = {tuple(st): p for st, p in d.items()}
        except Exception as e:  # noqa: BLE001
            ctx.violation(f"Sampler({backend}).probability_distribution raised {type(e).__name__}: {e}", case=case,
                          mechanism="distribution_raised:" + type(e).__name__, monitor="driver")
    if len(dists) == 2:
        ctx.count("cross_backend_comparisons")
        keys = set(dists["permanent"]) | set(dists["slos"])
        worst = max((abs(dists["permanent"].get(q, 0) - dists["slos"].get(q, 0)) for q in keys), default=0)
        if worst > 2e-9 * boson.n_fock(c.U_full.shape[0], sum(occ) + hp) + 1e-9:
            ctx.violation(f"permanent and slos distributions differ by {worst:.3g}", case=case,
                          mechanism="backends_disagree", monitor="cross-backend comparison")
    ctx.case(("large", n, tuple(sorted(occ)), len(log)), True, sample=case)
    drain_into(ctx, case)


def run(ctx):
    lw = setup(ctx)
    emumon.install()
    rng = ctx.rng
    State, emu = lw.State, lw.emulator
    first = True
    previous: list = []
    pool: list = []
    while not ctx.out_of_time():
        if rng.random() < 0.04:
            many_photons(ctx, lw, rng)
        if rng.random() < 0.03:
            large_basis(ctx, lw, rng)
        loss_p = float(rng.choice([0.0, 0.25, 0.5]))
        b = Builder(rng, lw, loss_p=loss_p, max_herald_photons=1)
        if loss_p == 0:
            b.allow = b.allow - {"loss"}
        n = int(rng.integers(2, 7)) if rng.random() < 0.9 else int(rng.integers(7, 10))
        log: list = []
        try:
            if rng.random() < 0.5:
                c = b.leaf(n, int(rng.integers(1, 9)), log, heralds=int(rng.integers(0, 2)))
            else:
                c = b.tree(n, 1, log, max_children=2, direct_heralds_p=0.3)
            if first or rng.random() < 0.1:           # directed: a total-loss element, a zero-loss element
                m = int(rng.integers(b.numbered(c)))
                c.loss(m, 1.0); log.append(["loss", m, 1.0])
                c.loss(0, 0.0); log.append(["loss", 0, 0.0])
                c.bs(0, 1) if b.numbered(c) > 1 else None
                first = False
        except Exception as e:  # noqa: BLE001
            ctx.count("construction_raised:" + type(e).__name__)
            circmon.drain()
            continue
        circmon.drain()
        try:
            c, variant = equivalent_variant(c, rng)
            log.append(["presented_as", variant])
            ctx.bucket("circuit_presented_as:" + variant)
        except Exception as e:  # noqa: BLE001
            ctx.count("variant_raised:" + type(e).__name__)
            continue
        circmon.drain()
        u = c.U_full
        n_loss = u.shape[0] - c.n_modes
        if n_loss > 5 or too_big(c, 13, 4):
            ctx.count("skipped_many_loss_modes")
            continue
        k = c.input_modes
        hph = sum(c.heralds["input"].values())
        for _ in range(2):
            k = c.input_modes                      # (a herald may have been declared in place by the previous round)
            hph = sum(c.heralds["input"].values())
            nph = int(rng.integers(0, 5))
            if nph + hph > 5:
                nph = max(0, 5 - hph)
            if k >= 7:
                nph = min(nph, 2)
                ctx.bucket("seven_or_more_modes")
            occ = random_state(rng, k, nph)
            case = {"circuit": log, "input": occ}
            dists = {}
            if previous and rng.random() < 0.5:
                # another sampler's default source / detector is reconfigured in place (public API); this must not
                # leak into samplers created afterwards
                prev = previous[int(rng.integers(len(previous)))]
                setattr(prev.source, str(rng.choice(["brightness", "purity", "indistinguishability"])),
                        float(rng.uniform(0.6, 0.95)))
                prev.detector.efficiency = float(rng.uniform(0.5, 0.9))
                ctx.bucket("other_sampler_defaults_edited_in_place")
            for backend in ("permanent", "slos"):
                try:
                    s = emu.Sampler(c, State(occ), backend=backend)
                    previous.append(s)
                    del previous[:-6]
                    dists[backend] = {tuple(st): p for st, p in s.probability_distribution.items()}
                except Exception as e:  # noqa: BLE001
                    ctx.violation(f"Sampler({backend}).probability_distribution raised {type(e).__name__}: {e}",
                                  case=case, mechanism="distribution_raised:" + type(e).__name__,
                                  monitor="driver")
            lossy = n_loss > 0
            total_loss = any(st[0] == "loss" and st[2] == 1.0 for st in log)
            bunched = max(occ, default=0) > 1
            heralded = bool(c.heralds["input"])
            if lossy: ctx.bucket("lossy_slos"); ctx.bucket("lossy_permanent")
            else: ctx.bucket("lossless")
            if nph + hph == 0: ctx.bucket("vacuum_input")
            if total_loss: ctx.bucket("total_loss_element")
            if bunched: ctx.bucket("bunched_input")
            if heralded: ctx.bucket("heralded")
            for old_s, old_d, cfg0, fp0, in0 in pool[:3]:
                try:
                    src0 = old_s.source
                    if (src0.brightness, src0.purity, src0.indistinguishability) == cfg0 \
                            and circmon.circuit_fingerprint(old_s.circuit) == fp0 and tuple(old_s.input_state) == in0:
                        ctx.count("earlier_objects_rechecked")
                        now = {tuple(st): p for st, p in old_s.probability_distribution.items()}
                        if now != old_d:
                            ctx.violation("an earlier Sampler reports a different distribution after other samplers "
                                          "were created / used", case=case, mechanism="earlier_object_changed",
                                          monitor="earlier-object re-read")
                except Exception as e:  # noqa: BLE001
                    ctx.count("reread_raised:" + type(e).__name__)
            if len(dists) == 2:
                pool.append((s, dict(dists["slos"]), (1, 1, 1), circmon.circuit_fingerprint(c), tuple(occ)))
                del pool[:-5]
                ctx.count("cross_backend_comparisons")
                kf = boson.n_fock(u.shape[0], nph + hph)
                allow = 2e-9 * kf + 1e-9
                keys = set(dists["permanent"]) | set(dists["slos"])
                worst = max((abs(dists["permanent"].get(q, 0) - dists["slos"].get(q, 0)) for q in keys), default=0)
                if worst > allow:
                    ctx.violation(f"permanent and slos distributions differ by {worst:.3g}", case=case,
                                  mechanism="backends_disagree", monitor="cross-backend comparison")
            if dists and (heralded or rng.random() < 0.5):
                # end to end: the heralded visible distribution of the circuit *as it was built* (wire model, not U_full)
                try:
                    ref = circmon.described_distribution(c, occ)
                except Exception as e:  # noqa: BLE001
                    ref = None
                    ctx.count("described_reference_error:" + type(e).__name__)
                if ref is None:
                    ctx.count("described_reference_unavailable")
                else:
                    rd, npat, nlw = ref
                    h_out = c.heralds["output"]
                    kf = boson.n_fock(u.shape[0], nph + hph)
                    for backend, d in dists.items():
                        ctx.count("end_to_end_comparisons")
                        got: dict = {}
                        for st, p in d.items():
                            if all(st[m] == x for m, x in h_out.items()):
                                key = tuple(x for m, x in enumerate(st) if m not in h_out)
                                got[key] = got.get(key, 0.0) + p
                        for key in set(rd) | set(got):
                            r_, g_ = rd.get(key, 0.0), got.get(key, 0.0)
                            if sum(key) == 0 and nlw and not any(h_out.values()):
                                a_key = 1e-9 * kf + 1e-9      # the all-vacuum state absorbs whatever was truncated elsewhere
                            else:
                                a_key = 1e-9 * npat.get(key, 1) + 1e-10
                            if abs(r_ - g_) > a_key:
                                ctx.violation(f"Sampler({backend}): heralded probability of {list(key)} is {g_:.10f}; the circuit "
                                              f"as built (wire model) gives {r_:.10f} (allowed {a_key:.2g})", case=case,
                                              mechanism="end_to_end_value", monitor="wire-model distribution")
                                break
            if dists and rng.random() < 0.3 and c.input_modes >= 2:
                # a herald is declared on the circuit in place after the samplers exist; the matching shorter input is
                # then assigned to the same sampler, which must give the distribution of the new configuration
                try:
                    nn = c.n_modes - len(c._internal_modes)
                    free = [m for m in range(nn) if c._map_mode(m) not in c.heralds["input"]
                            and c._map_mode(m) not in c.heralds["output"]]
                    if free:
                        c.herald(0, int(rng.choice(free)))
                        new_in = State(random_state(rng, c.input_modes, min(nph, 2)))
                        ctx.bucket("herald_declared_in_place")
                        try:
                            s.input_state = new_in
                            _ = s.probability_distribution
                        except Exception as e:  # noqa: BLE001
                            ctx.violation(f"after declaring a herald in place, assigning the matching input / reading the "
                                          f"distribution raised {type(e).__name__}: {e}", case=case,
                                          mechanism="reconfiguration_rejected", monitor="driver")
                except Exception as e:  # noqa: BLE001
                    ctx.count("in_place_herald_raised:" + type(e).__name__)
            if dists and rng.random() < 0.12 and nph >= 1:
                # a read that fails half-way (a loss Parameter holding 1.4) after the input was changed; the Parameter is
                # put back to exactly its earlier value; the next read must be the distribution of the *current* input
                # (judged by the Sampler.probability_distribution post-condition)
                try:
                    c2 = c.copy()
                    lp = lw.Parameter(float(rng.uniform(0.1, 0.6)))
                    c2.loss(int(rng.integers(c2.n_modes - len(c2._internal_modes))), lp)
                    s2 = emu.Sampler(c2, State(occ), backend=str(rng.choice(["permanent", "slos"])))
                    _ = s2.probability_distribution
                    occ2 = random_state(rng, c2.input_modes, nph)
                    s2.input_state = State(occ2)
                    v0 = lp.get()
                    lp.set(1.4)
                    try:
                        _ = s2.probability_distribution
                    except Exception:  # noqa: BLE001
                        ctx.bucket("read_failed_then_parameter_restored")
                    lp.set(v0)
                    d2 = {tuple(st): p for st, p in s2.probability_distribution.items()}
                    fresh = {tuple(st): p for st, p in emu.Sampler(c2, State(occ2), backend=s2.backend.backend).probability_distribution.items()}
                    if d2 != fresh:
                        ctx.violation("after a read that failed (invalid loss Parameter, since restored) the sampler reports a "
                                      "distribution that differs from a fresh sampler's for the same circuit and input",
                                      case={**case, "second_input": occ2}, mechanism="stale_after_failed_read",
                                      monitor="driver: fresh sampler")
                except Exception as e:  # noqa: BLE001
                    ctx.count("failed_read_sequence_raised:" + type(e).__name__)
            ctx.case((lossy, n_loss, nph, bunched, heralded, k), lossy or bunched or heralded, sample=case)
            drain_into(ctx, case)
    merge_stats(ctx)
