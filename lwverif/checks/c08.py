"""C08 - operations never modify their arguments; failed calls change nothing.

Deciding monitors: the argument-immutability wrapper on every public entry
point (argmon), the reject-atomicity monitor on the Circuit mutators (circmon),
the parent-stability comparison through the shadow model, and a quiescent-point
invariant on the library's shared module-level gate instances."""
from __future__ import annotations

import numpy as np

from .. import argmon, circmon, emumon
from ..gen import Builder, haar
from .c03 import random_state
from .common import drain_into, merge_stats, setup

PROPERTY = "C08"
RULE = ("seeded histories: one circuit object reused 1-20 times as argument of add()/+ on parents with every layout of "
        "existing heralded sub-circuits (ancilla before/inside/after the span), then edited; the same object handed to "
        "Simulator/Sampler/QuickSampler/Analyzer/Reck/Display/tomography/converter; every documented kind of rejected "
        "construction call; distinct = (operation, argument kind, parent ancilla layout, accepted/rejected kind); "
        "non-trivial = parent had an ancilla or the call was rejected or the object was reused >= 2 times")
MANDATORY = ["ungrouped_add_ancilla_inside_span", "child_edited_after_add", "reject:mode_out_of_range",
             "reject:equal_modes", "reject:reflectivity", "reject:loss", "reject:convention", "reject:herald_type",
             "reject:duplicate_herald", "reject:incomplete_swaps", "reject:oversize_add",
             "reject:oversize_add_trailing_ancilla", "reject:oversize_add_heralded_child", "reject:plus_size", "reject:noninteger_mode",
             "shared_instances_checked", "passed_to:Simulator", "passed_to:Sampler", "passed_to:QuickSampler",
             "passed_to:Analyzer", "passed_to:Reck", "passed_to:Display", "passed_to:tomography", "converter_run",
             "reused_object_contains_plain_group", "parent_edited_after_copy", "frozen_copy_taken", "returned_values_scribbled", "copies_and_sums_rewritten"]
DECIDING = ["mon.arg_fingerprints_compared", "mon.reject_atomicity_checks", "parent_stability_comparisons",
            "shared_instance_comparisons"]
BUDGET = {"quick": 30, "thorough": 480}
ASSUMPTIONS = ["observable + structural fingerprint (n_modes, heralds, internal modes, component digest, U_full rounded to "
               "1e-12) decides 'unchanged'", "must-be-rejected kinds are those the property lists; other oddities are "
               "only required to leave the circuit unchanged if they raise"]


def reject_cases(lw, rng, c, nn):
    """(kind, callable) pairs; every callable must raise."""
    n_big = nn + int(rng.integers(0, 3))
    child_big = lw.Circuit(nn + 1)
    child_big.bs(0)
    small = lw.Circuit(2)
    small.bs(0)
    # heralded children: oversize by their *visible* size, whatever the number of heralds
    her_big = lw.Circuit(nn + 2)
    her_big.bs(0)
    her_big.herald(int(rng.integers(0, 2)), int(rng.integers(nn + 2)))
    her_small = lw.Circuit(3)
    her_small.bs(0); her_small.bs(1)
    hm = int(rng.integers(3))
    her_small.herald(int(rng.integers(0, 2)), hm, int(rng.integers(3)) if rng.random() < 0.5 else hm)
    grp = bool(rng.random() < 0.5)
    out = [
        ("mode_out_of_range", lambda: c.bs(0, n_big)),
        ("mode_out_of_range", lambda: c.bs(-1 - int(rng.integers(2)), 0)),
        ("mode_out_of_range", lambda: c.ps(n_big, 0.3)),
        ("mode_out_of_range", lambda: c.loss(n_big, 0.3)),
        ("mode_out_of_range", lambda: c.barrier([0, n_big])),
        ("mode_out_of_range", lambda: c.mode_swaps({0: n_big, n_big: 0})),
        ("mode_out_of_range", lambda: c.herald(0, n_big)),
        ("mode_out_of_range", lambda: c.herald(0, 0, n_big)),
        ("mode_out_of_range", lambda: c.add(small, n_big)),
        ("noninteger_mode", lambda: c.ps(0.5, 0.1)),
        ("noninteger_mode", lambda: c.bs(0, 1.5)),
        ("equal_modes", lambda: c.bs(0, 0)),
        ("reflectivity", lambda: c.bs(0, 1, float(rng.choice([1.5, -0.1, 1 + 1e-6] + HAIR_OUTSIDE)))),
        ("loss", lambda: c.bs(0, 1, 0.5, float(rng.choice([-0.1, 1.5] + HAIR_OUTSIDE)))),
        ("loss", lambda: c.ps(0, 0.2, float(rng.choice([-0.1, 1.5] + HAIR_OUTSIDE)))),
        ("loss", lambda: c.loss(0, float(rng.choice([-1e-9, 1.0000001] + HAIR_OUTSIDE)))),
        ("loss", lambda: c.bs(0, 1, 0.5, lw.Parameter(float(rng.choice([1.5] + HAIR_OUTSIDE[:3]))))),
        ("not_a_number", lambda: c.bs(0, 1, float("nan"))),
        ("not_a_number", lambda: c.loss(0, float("nan"))),
        ("not_a_number", lambda: c.bs(0, 1, 0.5, float("nan"))),
        ("loss", lambda: c.loss(0, "a")),
        ("loss", lambda: c.loss(0, True)),
        ("convention", lambda: c.bs(0, 1, 0.5, 0, "X")),
        ("herald_type", lambda: c.herald(1.0, 0)),
        ("herald_type", lambda: c.herald(True, 0)),
        ("incomplete_swaps", lambda: c.mode_swaps({0: 1})),
        ("incomplete_swaps", lambda: c.mode_swaps({0: 1, 1: 1})),
        ("oversize_add", lambda: c.add(child_big, 0)),
        ("oversize_add", lambda: c.add(small, nn - 1, grp)),
        ("oversize_add_heralded_child", lambda: c.add(her_big, 0, grp)),
        ("oversize_add_heralded_child", lambda: c.add(her_small, nn - 1, grp)),
        ("mode_out_of_range", lambda: c.add(her_small, n_big)),
        ("plus_size", lambda: c + child_big),
        ("add_non_circuit", lambda: c.add(np.eye(2), 0)),
        # a mode number wrapped in a one-element array is refused - and the caller's array must come back as it went in
        ("array_as_mode", lambda: c.ps(np.array([nn - 1]), 0.3)),
        ("array_as_mode", lambda: c.bs(np.array([max(nn - 2, 0)]))),
        ("array_as_mode", lambda: c.loss(np.array([nn - 1]), 0.1)),
        ("array_as_mode", lambda: c.add(small, np.array([max(nn - 2, 0)]))),
        ("array_as_mode", lambda: c.herald(0, np.array([nn - 1]))),
        ("array_as_mode", lambda: c.barrier([np.array([nn - 1])])),
    ]
    return out


# values a hair outside [0, 1]: a call that raises for them must leave the circuit untouched like any other
HAIR_OUTSIDE = [float(np.nextafter(1.0, 2.0)), 1 + 2.0 ** -40, 1 + 1e-10, -5e-324, -1e-15, float(np.nextafter(0.0, -1.0))]


def parent_with_ancillas(lw, rng, b, log):
    """A parent whose numbered modes are interleaved with private ancillas."""
    n = int(rng.integers(4, 8))
    p = lw.Circuit(n)
    log.append(["circuit", n])
    for _ in range(int(rng.integers(0, 3))):
        sub_log: list = []
        k = int(rng.integers(1, 3))
        nh = int(rng.integers(1, 3))
        sub = b.leaf(k + nh, int(rng.integers(0, 4)), sub_log, heralds=nh)
        if sub.input_modes > b.numbered(p):
            continue
        m = int(rng.integers(0, b.numbered(p) - sub.input_modes + 1))
        p.add(sub, m)
        log.append(["add", sub_log, m, True])
    return p


def reuse_history(ctx, lw, rng):
    b = Builder(rng, lw, loss_p=0.1, param_p=float(rng.choice([0.0, 0.3])))
    xlog: list = []
    r = rng.random()
    if r < 0.25:
        x = [lw.qubit.H(), lw.qubit.CNOT(), lw.qubit.CZ_Heralded(), lw.qubit.S()][int(rng.integers(4))]
        xlog.append(["gate", type(x).__name__])
    elif r < 0.33:
        # an object that consists of exactly ONE group (and possibly heralds with input != output declared on it)
        inner_log: list = []
        k_ = int(rng.integers(2, 5))
        inner = b.leaf(k_, int(rng.integers(1, 4)), inner_log, heralds=0)
        x = lw.Circuit(k_)
        x.add(inner, 0, group=True)
        xlog.extend([["circuit", k_], ["add", inner_log, 0, True]])
        if rng.random() < 0.6 and k_ >= 3:
            hi, ho = (int(v) for v in rng.choice(k_, size=2, replace=False))
            nph_ = int(rng.integers(0, 2))
            x.herald(nph_, hi, ho)
            xlog.append(["herald", nph_, hi, ho])
        ctx.bucket("reused_object_is_a_single_group")
    elif r < 0.4:
        # herald-free object that contains plain groups (sub-circuits added with group=True)
        saved = b.loss_p
        x = b.tree(int(rng.integers(2, 5)), 1, xlog, max_children=2, steps=(0, 3), herald_p=0.0, group_p=1.0,
                   gate_p=0.0, direct_heralds_p=0.0, plus_p=0.0)
        ctx.bucket("reused_object_contains_plain_group")
    elif r < 0.6:
        x = b.leaf(int(rng.integers(1, 4)), int(rng.integers(1, 5)), xlog, heralds=0)
    else:
        x = b.leaf(int(rng.integers(2, 5)), int(rng.integers(1, 5)), xlog, heralds=int(rng.integers(1, 3)))
    if rng.random() < 0.35 and not x._internal_modes:
        nnx = b.numbered(x)
        if nnx >= 2:
            a_ = int(rng.integers(nnx - 1))
            x.mode_swaps({a_: a_ + 1, a_ + 1: a_})
            if rng.random() < 0.5 and nnx >= 3:
                x.ps((a_ + 2) % nnx, 0.4)
            x.mode_swaps({0: nnx - 1, nnx - 1: 0})
            xlog.append(["two_swaps_appended"])
    parents = []
    x_copy = x.copy()                       # a copy taken before anything else happens must never move
    fp_copy = circmon.circuit_fingerprint(x_copy, with_unitary=True)
    n_use = int(rng.integers(1, 21 if ctx.tier == "thorough" else 9))
    hist = [["x", xlog]]
    had_ancilla = False
    for _ in range(n_use):
        plog: list = []
        p = parent_with_ancillas(lw, rng, b, plog)
        nn = b.numbered(p)
        k = x.input_modes
        if k > nn or k == 0:
            continue
        m = int(rng.integers(0, nn - k + 1))
        group = bool(rng.random() < 0.4)
        lo, hi = p._map_mode(m), p._map_mode(m + k - 1)
        inside = any(lo < i < hi for i in p._internal_modes)
        had_ancilla = had_ancilla or bool(p._internal_modes)
        if inside and not group and not x.heralds["input"]:
            ctx.bucket("ungrouped_add_ancilla_inside_span")
        try:
            p.add(x, m, group)
        except Exception as e:  # noqa: BLE001
            ctx.count("legal_add_raised:" + type(e).__name__)
            continue
        hist.append(["add_to_parent", plog, m, group, {"ancilla_inside_span": inside}])
        parents.append(p)
        if rng.random() < 0.3 and not x.heralds["input"] and x.n_modes == nn and not p.heralds["input"]:
            try:
                _ = p + x
                hist.append(["plus"])
            except Exception:  # noqa: BLE001
                pass
    # hand the same object to the other entry points
    emu, State = lw.emulator, lw.State
    k = x.input_modes
    hph = sum(x.heralds["input"].values())
    try:
        lossless = x.U_full.shape[0] == x.n_modes
    except Exception:  # noqa: BLE001
        lossless = False
    if k and k <= 5 and hph <= 2:
        s = State(random_state(rng, k, 1))
        for name, fn in (("Simulator", lambda: emu.Simulator(x).simulate(s)),
                         ("Sampler", lambda: emu.Sampler(x, s).sample_N_outputs(20, seed=1)),
                         ("QuickSampler", lambda: emu.QuickSampler(x, s).sample_N_outputs(20, seed=1)),
                         ("Analyzer", lambda: emu.Analyzer(x).analyze(s)),
                         ("Display", lambda: lw.Display(x, display_type="svg"))):
            try:
                fn()
                ctx.bucket("passed_to:" + name)
            except Exception as e:  # noqa: BLE001
                ctx.count(f"entry_point_raised:{name}:{type(e).__name__}")
        if lossless:
            try:
                lw.interferometers.Reck().map(x)
                ctx.bucket("passed_to:Reck")
            except Exception as e:  # noqa: BLE001
                ctx.count("entry_point_raised:Reck:" + type(e).__name__)
    # now edit the child; parents must not move (parent-stability via the shadow)
    try:
        nx = b.numbered(x)
        if nx >= 2:
            x.bs(0, 1, float(rng.uniform(0.1, 0.9)))
        else:
            x.ps(0, 1.234)
        ctx.bucket("child_edited_after_add")
        hist.append(["edit_child"])
        status_x, problems_x = circmon.compare(x, rng)
        if status_x == "compared":
            ctx.count("parent_stability_comparisons")
            for kind, detail in problems_x:
                if kind != "unitarity":
                    ctx.violation(f"the reused circuit no longer follows its own construction history after it was used as "
                                  f"an argument and then edited: {kind}: {detail}", case={"history": hist},
                                  mechanism="argument_corrupted:" + kind, monitor="shadow of the reused object")
    except Exception:  # noqa: BLE001
        pass
    # rewrites applied to a copy (or to a sum) must leave the object they were made from alone
    try:
        fp_x = circmon.circuit_fingerprint(x, with_unitary=True)
        for rw in ("compress_mode_swaps", "remove_non_adjacent_bs", "unpack_groups"):
            cpy = x.copy()
            getattr(cpy, rw)()
        if not x.heralds["input"]:
            other = lw.Circuit(x.n_modes)
            nnx = x.n_modes
            if nnx >= 2:
                other.mode_swaps({0: 1, 1: 0})
            tot = x + other
            tot.compress_mode_swaps()
            tot2 = other + x
            tot2.compress_mode_swaps()
            # sums with an *empty* circuit, extended afterwards: the operand must not follow
            for tot3 in (lw.Circuit(nnx) + x, x + lw.Circuit(nnx)):
                tot3.ps(0, 0.77)
                if nnx >= 2:
                    tot3.bs(0, 1, 0.31)
                    tot3.mode_swaps({0: 1, 1: 0})
            ctx.bucket("sum_with_empty_circuit_extended")
        ctx.bucket("copies_and_sums_rewritten")
        if circmon.circuit_fingerprint(x, with_unitary=True) != fp_x:
            ctx.violation("rewriting a copy / a sum of a circuit changed the circuit itself", case={"history": hist},
                          mechanism="original_changed_by_rewrite_of_copy", monitor="copy independence")
    except Exception as e:  # noqa: BLE001
        ctx.count("rewrite_of_copy_raised:" + type(e).__name__)
    # what the read-only API hands out must not be the circuit's own storage
    for target in [x] + parents[:2]:
        try:
            fp_t = circmon.circuit_fingerprint(target, with_unitary=True)
            h = target.heralds
            h["input"][97] = 1
            h["output"].clear()
            ps_list = target.get_all_params()
            ps_list.clear()
            ps_list.append("junk")
            prob = circmon.scribble_probe(target)
            ctx.bucket("returned_values_scribbled")
            if prob or circmon.circuit_fingerprint(target, with_unitary=True) != fp_t:
                ctx.violation("overwriting values returned by heralds / get_all_params / U / U_full changed the circuit",
                              case={"history": hist}, mechanism="returned_value_aliases_state", monitor="scribble probe")
        except Exception as e:  # noqa: BLE001
            ctx.count("scribble_raised:" + type(e).__name__)
    # frozen copies (a rarely used option): neither the parent nor the reused argument may move
    for target in [x] + parents[:2]:
        try:
            target.copy(freeze_parameters=True)       # argmon fingerprints the receiver before / after
            ctx.bucket("frozen_copy_taken")
        except Exception as e:  # noqa: BLE001
            ctx.count("frozen_copy_raised:" + type(e).__name__)
    # copies: a copy of a parent taken now must not move when the parent receives another heralded sub-circuit
    for p in parents[:3]:
        try:
            pc = p.copy()
            fpc = circmon.circuit_fingerprint(pc, with_unitary=True)
            sub = b.leaf(2, 2, [], heralds=1)
            if sub.input_modes <= b.numbered(p):
                p.add(sub, 0)
                ctx.bucket("parent_edited_after_copy")
                if circmon.circuit_fingerprint(pc, with_unitary=True) != fpc:
                    ctx.violation("a copy of a circuit changed when a heralded sub-circuit was added to the original",
                                  case={"history": hist}, mechanism="copy_changed_by_edit_of_original",
                                  monitor="copy independence")
        except Exception as e:  # noqa: BLE001
            ctx.count("copy_probe_raised:" + type(e).__name__)
    if circmon.circuit_fingerprint(x_copy, with_unitary=True) != fp_copy:
        ctx.violation("a copy of the reused circuit, taken before it was used, changed", case={"history": hist},
                      mechanism="copy_of_argument_changed", monitor="copy independence")
    # shared Parameter objects are the documented exception: change them only now, after every fingerprint
    # comparison; the late-bound shadow comparison below still requires the parameters to be live in every parent
    for prm in b.params[:4]:
        v = prm.get()
        if isinstance(v, float) and 0.05 < v < 0.95:
            prm.set(v * 0.9)
    for p in parents:
        status, problems = circmon.compare(p, rng)
        if status == "compared":
            ctx.count("parent_stability_comparisons")
            for kind, detail in problems:
                if kind in ("unitarity",):
                    continue
                ctx.violation(f"parent differs from its own construction history after the child was "
                              f"reused/edited: {kind}: {detail}", case={"history": hist},
                              mechanism="parent_changed:" + kind, monitor="parent stability (shadow)")
    ctx.case(("reuse", xlog[0][0], len(parents), had_ancilla, x.n_modes, len(x.heralds["input"]),
              tuple(sorted(h[4]["ancilla_inside_span"] for h in hist if h[0] == "add_to_parent")),
              tuple(sorted(h[3] for h in hist if h[0] == "add_to_parent"))), had_ancilla or len(parents) >= 2,
             sample={"history": hist})
    drain_into(ctx, {"history": hist})


def rejection_history(ctx, lw, rng):
    b = Builder(rng, lw, loss_p=0.1)
    plog: list = []
    p = parent_with_ancillas(lw, rng, b, plog)
    for _ in range(int(rng.integers(0, 4))):
        b.primitive(p, plog)
    if rng.random() < 0.5:
        b.add_heralds(p, plog, 1)
    nn = b.numbered(p)
    cases = reject_cases(lw, rng, p, nn)
    # duplicate heralds
    hin = p.heralds["input"]
    direct = [m for m in range(nn) if p._map_mode(m) in hin]
    if direct:
        cases.append(("duplicate_herald", lambda: p.herald(0, direct[0])))
        free = [m for m in range(nn) if m not in direct]
        if free:
            cases.append(("duplicate_herald", lambda: p.herald(1, free[0], direct[0])
                          if p._map_mode(direct[0]) in p.heralds["output"] else p.herald(0, direct[0])))
    # oversize add on a parent with trailing ancillas (numbered modes decide, not total modes)
    internal = p._internal_modes
    if internal and max(internal) > p._map_mode(nn - 1):
        k = 2
        child = lw.Circuit(k)
        child.bs(0)
        cases.append(("oversize_add_trailing_ancilla", lambda: p.add(child, nn - 1)))
    order = rng.permutation(len(cases))
    for i in order[: int(rng.integers(4, len(cases) + 1))]:
        kind, fn = cases[int(i)]
        before = circmon.circuit_fingerprint(p, with_unitary=True)
        ctx.bucket("reject:" + kind)
        case = {"parent": plog, "rejected_call_kind": kind, "state": Builder.state(p)}
        try:
            fn()
            ctx.violation(f"call of kind '{kind}' was accepted (should be rejected)", case=case,
                          mechanism="invalid_accepted:" + kind, monitor="must-be-rejected")
        except Exception as e:  # noqa: BLE001
            ctx.count("rejected_calls")
        after = circmon.circuit_fingerprint(p, with_unitary=True)
        ctx.count("driver_atomicity_checks")
        if after != before:
            ctx.violation(f"circuit changed across a call of kind '{kind}' that raised", case=case,
                          mechanism="rejected_call_changed_circuit", monitor="driver atomicity")
        ctx.case(("reject", kind, tuple(sorted(internal)), nn, len(p.heralds["input"])), True)
        drain_into(ctx, case)


def shared_instances_round(ctx, lw, rng, baseline):
    """Run converter / tomography on circuits with ancillas between qubit modes, then
    re-check the shared module-level gate instances."""
    from qiskit import QuantumCircuit
    emu, State = lw.emulator, lw.State
    qc = QuantumCircuit(2)
    n2 = 0
    for _ in range(int(rng.integers(2, 6))):
        g = str(rng.choice(["h", "x", "s", "t", "sx", "cx", "cz", "z", "y"]))
        if g in ("cx", "cz") and n2 >= 2:
            g = "h"
        if g in ("cx", "cz"):
            n2 += 1
            a, bq = (0, 1) if rng.random() < 0.5 else (1, 0)
            getattr(qc, g)(a, bq)
        else:
            getattr(qc, g)(int(rng.integers(2)))
    try:
        conv, _ps = lw.qubit.qiskit_converter(qc, allow_post_selection=bool(rng.random() < 0.5))
        ctx.bucket("converter_run")
    except Exception as e:  # noqa: BLE001
        conv = None
        ctx.count("converter_refused:" + type(e).__name__)

    def exp_state(circuits):
        return [emu.Sampler(c, State([1, 0] * (c.input_modes // 2))).sample_N_outputs(
            50, seed=3, post_select=lambda s: all(s[2 * i] + s[2 * i + 1] == 1 for i in range(len(s) // 2)))
            for c in circuits]

    def exp_proc(circuits, inputs):
        return [emu.Sampler(c, s).sample_N_outputs(
            50, seed=3, post_select=lambda s: all(s[2 * i] + s[2 * i + 1] == 1 for i in range(len(s) // 2)))
            for c, s in zip(circuits, inputs)]

    base = lw.Circuit(4)
    base.add(lw.qubit.H(), 0)
    base.add(lw.qubit.CNOT(), 0)          # ancillas sit between / around the qubit modes
    base.add(lw.qubit.S(), 2)
    try:
        lw.tomography.StateTomography(2, base, exp_state).process()
        ctx.bucket("passed_to:tomography")
        one = lw.Circuit(2)
        one.add(lw.qubit.T(), 0)
        lw.tomography.LIProcessTomography(1, one, exp_proc).process()
        lw.tomography.GateFidelity(1, one, exp_proc).process(np.array([[1, 0], [0, np.exp(1j * np.pi / 4)]]))
        if rng.random() < 0.3:
            argmon.wrap  # noqa: B018
            lw.tomography.MLEProcessTomography(1, one, exp_proc).process()
        if conv is not None and conv.input_modes == 4 and sum(conv.heralds["input"].values()) <= 2 \
                and conv.n_modes <= 10:
            lw.tomography.StateTomography(2, conv, exp_state).process()
    except Exception as e:  # noqa: BLE001
        ctx.count("tomography_raised:" + type(e).__name__)
    ctx.bucket("shared_instances_checked")
    now = {k: argmon.fingerprint(v) for k, v in argmon.shared_instances().items()}
    for k, fp in baseline.items():
        ctx.count("shared_instance_comparisons")
        if now.get(k) != fp:
            ctx.violation(f"shared library instance {k} changed", case={"qiskit": [i.operation.name for i in qc.data]},
                          mechanism="shared_instance_changed", monitor="shared-instance invariant",
                          witness={"now": argmon.describe(argmon.shared_instances()[k])})
            baseline[k] = now.get(k)
    ctx.case(("shared", tuple(i.operation.name for i in qc.data)), True)
    drain_into(ctx, {"qiskit": [i.operation.name for i in qc.data]})


def run(ctx):
    lw = setup(ctx)
    emumon.install()
    argmon.install()
    rng = ctx.rng
    baseline = {k: argmon.fingerprint(v) for k, v in argmon.shared_instances().items()}
    i = 0
    while not ctx.out_of_time():
        r = i % 25
        try:
            if r == 0 and ctx.time_left() > 0:
                shared_instances_round(ctx, lw, rng, baseline)
            elif r % 2:
                reuse_history(ctx, lw, rng)
            else:
                rejection_history(ctx, lw, rng)
        except Exception as e:  # noqa: BLE001 - a legal construction step raised: C02's business, but the
            # reject-atomicity monitor may have observed a half-applied call on the way
            ctx.count("history_aborted:" + type(e).__name__)
            drain_into(ctx, {"aborted_by": type(e).__name__ + ": " + str(e)[:200]})
        i += 1
    merge_stats(ctx)
