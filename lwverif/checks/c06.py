"""C06 - imperfect-source model: normalised mixture of distinguishable photon groups.

Deciding monitors: post-condition on ``Source._build_statistics`` (distribution
over label partitions equals the generative reference) and on the
``Sampler.probability_distribution`` getter with a non-ideal source (equals the
mixture of convolved per-group boson-sampling distributions); derived monitors
for perfect settings, zero indistinguishability, g2 and HOM visibility."""
from __future__ import annotations

import math

import numpy as np

from .. import boson, circmon, emumon
from ..emumon import insert_heralds
from ..gen import Builder
from .c03 import random_state
from .common import drain_into, merge_stats, setup

PROPERTY = "C06"
RULE = ("seeded random (brightness in {0,tiny,random,1}, purity in (0.5,1] incl. near 0.5 and 1, indistinguishability "
        "in {0,random,1}, threshold in {0,small,large}) x inputs (gaps, bunched, herald photons, <=4 photons) x "
        "lossless/lossy circuits x both backends; distinct = (which parameters are non-ideal, bunched?, photons, "
        "lossy?, backend, threshold?, heralded?); non-trivial = at least one non-ideal parameter")
MANDATORY = ["two_bunched_modes_dim_imperfect", "all_three_nonideal_3photons", "bunched_impure", "lossy_dim", "threshold", "slos", "permanent",
             "g2_checked", "hom_checked", "perfect_checked", "classical_checked", "herald_photons",
             "source_retuned_by_tiny_amount", "dim_source_3photons", "sampler_moved_to_other_input_herald"]
DECIDING = ["mon.source_stats_postconditions", "mon.sampler_source_postconditions"]
BUDGET = {"quick": 30, "thorough": 480}
ASSUMPTIONS = ["reference = generative emission model (pair probability from g2 = 1 - purity, independent survival "
               "with probability brightness, common mode with probability sqrt(indistinguishability)) + own "
               "permanent; <=4 injected photons; allowance 1e-8 + truncation"]


def pick_source(rng):
    b = float(rng.choice([1.0, 1.0, 0.0, 1e-9, 0.004, 0.02, rng.random(), rng.random()]))
    p = float(rng.choice([1.0, 1.0, 0.5 + 1e-6, 0.999999, 1 - 1e-7, 1 - 1e-8, 1 - 3e-9, rng.uniform(0.5001, 1), rng.uniform(0.8, 1)]))
    i = float(rng.choice([1.0, 1.0, 0.0, rng.random(), rng.random()]))
    t = float(rng.choice([0, 0, 0, 1e-6, 1e-3, 0.05]))
    return b, p, i, t


def classical(u, n_real, occ):
    """Distinguishable particles: each photon independently follows |U|^2 (loss summed)."""
    d = {tuple([0] * n_real): 1.0}
    for m, n in enumerate(occ):
        for _ in range(n):
            single = {}
            for j in range(u.shape[0]):
                pj = abs(u[j, m]) ** 2
                k = tuple(1 if (q == j and j < n_real) else 0 for q in range(n_real))
                single[k] = single.get(k, 0.0) + pj
            d = boson.convolve(d, single)
    return d


def derived(ctx, lw, rng):
    emu, State = lw.emulator, lw.State
    # g2 of the emitted photon-number statistics = 1 - purity
    purity = float(rng.choice([rng.uniform(0.5001, 1), 0.75, 0.999, 0.51, 1 - 1e-6, 1 - 1e-7, 1 - 1e-8]))
    src = emu.Source(purity=purity)
    st = src._build_statistics(State([1]))
    pn = {}
    for s, p in st.items():
        pn[s.n_photons] = pn.get(s.n_photons, 0.0) + p
    p1, p2 = pn.get(1, 0.0), pn.get(2, 0.0)
    g2 = 2 * p2 / (p1 + 2 * p2) ** 2
    ctx.bucket("g2_checked")
    if abs(g2 - (1 - purity)) > 1e-9 * max(1e-3, min(1.0, (1 - purity) * 1e3)) + 1e-15 or set(pn) - {1, 2}:
        ctx.violation(f"emitted photon-number statistics {pn} give g2 = {g2:.9f}, 1 - purity = {1 - purity:.9f}",
                      case={"purity": purity}, mechanism="g2", monitor="derived: g2")
    # HOM visibility = indistinguishability
    ind = float(rng.choice([rng.random(), 0.0, 1.0, 0.9]))
    c = lw.Circuit(2)
    c.bs(0, 1, 0.5, 0, str(rng.choice(["Rx", "H"])))
    for backend in ("permanent", "slos"):
        d = emu.Sampler(c, State([1, 1]), source=emu.Source(indistinguishability=ind), backend=backend).probability_distribution
        pc = d.get(State([1, 1]), 0.0)
        vis = 1 - 2 * pc
        ctx.bucket("hom_checked")
        if abs(vis - ind) > 1e-8:
            ctx.violation(f"HOM visibility {vis:.9f} for indistinguishability {ind:.9f} ({backend})",
                          case={"indistinguishability": ind}, mechanism="hom", monitor="derived: HOM visibility")


def out_of_domain(ctx, lw, rng):
    """Settings outside the stated domain (NaN, infinities, values a hair outside the interval). They should be refused;
    if a setting is *accepted*, the object is a source with that setting and what it then reports is judged like any other:
    finite, non-negative, normalised statistics and output distribution."""
    emu, State = lw.emulator, lw.State
    name = str(rng.choice(["brightness", "purity", "indistinguishability", "probability_threshold"]))
    bad = [float("nan"), np.float64("nan"), float("inf"), -float("inf"), -1e-12, float(np.nextafter(1.0, 2.0)), 1 + 1e-9,
           -0.0 if name != "purity" else 0.5, 1.5, -0.2][int(rng.integers(10))]
    via = str(rng.choice(["constructor", "setter"]))
    case = {"setting": name, "value": repr(bad), "via": via}
    try:
        if via == "constructor":
            src = emu.Source(**{name: bad})
        else:
            src = emu.Source(brightness=0.8)
            setattr(src, name, bad)
    except Exception:  # noqa: BLE001
        ctx.count("out_of_domain_refused")
        return
    ctx.count("out_of_domain_accepted:" + name)
    if bad == 0 and name != "purity":
        return          # -0.0 is zero
    ctx.bucket("out_of_domain_setting_accepted")
    c = lw.Circuit(3)
    c.bs(0, 1); c.bs(1, 2, 0.3)
    for occ in ([1, 1, 0], [1, 0, 1]):
        try:
            st = src._build_statistics(State(occ))
            d = emu.Sampler(c, State(occ), source=src).probability_distribution
        except Exception as e:  # noqa: BLE001
            ctx.count("out_of_domain_use_raised:" + type(e).__name__)
            continue
        for what, table in (("input statistics", st), ("output distribution", d)):
            vals = [float(v) for v in table.values()]
            tot = sum(vals)
            if not all(np.isfinite(vals)) or min(vals, default=0) < 0 or not abs(tot - 1) <= 1e-6:
                ctx.violation(f"Source({name}={bad!r}) was accepted and its {what} for input {occ} is not a normalised "
                              f"finite distribution (total {tot!r}, {len(vals)} entries)", case=case,
                              mechanism="accepted_setting_not_normalised:" + name, monitor="driver: out-of-domain settings")
                return


def run(ctx):
    lw = setup(ctx)
    emumon.install()
    rng = ctx.rng
    State, emu = lw.State, lw.emulator
    while not ctx.out_of_time():
        derived(ctx, lw, rng)
        out_of_domain(ctx, lw, rng)
        for ob in circmon.drain():      # (the boundary monitors also saw those objects; the driver above decides for them)
            ctx.count("observations_on_out_of_domain_objects:" + ob["prop"])
        b = Builder(rng, lw, loss_p=float(rng.choice([0.0, 0.3])), max_herald_photons=1)
        if b.loss_p == 0:
            b.allow = b.allow - {"loss"}
        log: list = []
        try:
            n = int(rng.integers(1, 5))
            if rng.random() < 0.7:
                c = b.leaf(n, int(rng.integers(1, 7)), log, heralds=int(rng.integers(0, 2)))
            else:
                c = b.tree(n, 1, log, max_children=1, direct_heralds_p=0.3)
        except Exception as e:  # noqa: BLE001
            ctx.count("construction_raised:" + type(e).__name__)
            circmon.drain()
            continue
        circmon.drain()
        u = c.U_full
        n_loss = u.shape[0] - c.n_modes
        if n_loss > 3 or u.shape[0] > 9:
            continue
        k = c.input_modes
        hph = sum(c.heralds["input"].values())
        max_ph = 3 if ctx.tier == "quick" else 4
        nph = int(rng.integers(0, max_ph + 1))
        nph = max(0, min(nph, max_ph - hph))
        occ = random_state(rng, k, nph)
        if k >= 2 and hph == 0 and u.shape[0] <= 5 and rng.random() < 0.12:
            # directed: two (or more) modes that each hold several photons - emission outcomes that differ only in
            # *which* bunched mode lost a photon must stay distinct
            occ = [0] * k
            a_, b_ = rng.choice(k, size=2, replace=False)
            occ[int(a_)], occ[int(b_)] = 2, int(rng.choice([2, 2, 3])) if u.shape[0] <= 4 else 2
        full_occ = insert_heralds(occ, c.heralds["input"])
        br, pu, ind, thr = pick_source(rng)
        if sorted(full_occ, reverse=True)[1:2] >= [2]:
            if br == 1 or (pu == 1 and ind == 1):
                br, pu, ind = float(rng.uniform(0.3, 0.95)), float(rng.choice([1.0, rng.uniform(0.6, 0.99)])), float(rng.uniform(0.2, 0.95))
            if br < 1 and (pu < 1 or ind < 1):
                ctx.bucket("two_bunched_modes_dim_imperfect")
        # the settings in other numeric types of (as good as) the same value: numpy floats of both widths, ints and
        # numpy ints for 0 / 1; the reference uses exactly the value handed over
        forms = {}
        vals = {"br": br, "pu": pu, "ind": ind, "thr": thr}
        for nm_ in ("br", "pu", "ind", "thr"):
            v_ = vals[nm_]
            if rng.random() < 0.08:
                opts_ = [np.float64, np.float32] + ([int, np.int64, np.uint8] if v_ in (0.0, 1.0) else [])
                ty_ = opts_[int(rng.integers(len(opts_)))]
                w_ = ty_(v_)
                if ty_ is np.float32 and nm_ == "pu" and not 0.5 < float(w_) <= 1:
                    continue
                vals[nm_] = w_
                forms[nm_] = ty_.__name__
                ctx.bucket("source_setting_as:" + ty_.__name__)
        br_a, pu_a, ind_a, thr_a = vals["br"], vals["pu"], vals["ind"], vals["thr"]
        br, pu, ind, thr = float(br_a), float(pu_a), float(ind_a), float(thr_a)
        backend = str(rng.choice(["permanent", "slos"]))
        case = {"circuit": log, "input": occ, "setting_types": forms, "source": {"brightness": br, "purity": pu,
                "indistinguishability": ind, "threshold": thr}, "backend": backend}
        nonideal = (br < 1, pu < 1, ind < 1)
        bunched = max(full_occ, default=0) > 1
        if all(nonideal) and sum(full_occ) >= 3: ctx.bucket("all_three_nonideal_3photons")
        if 0 < br <= 0.02 and sum(full_occ) >= 3 and (pu < 1 or ind < 1): ctx.bucket("dim_source_3photons")
        if bunched and pu < 1: ctx.bucket("bunched_impure")
        if n_loss and br < 1: ctx.bucket("lossy_dim")
        if thr: ctx.bucket("threshold")
        if hph: ctx.bucket("herald_photons")
        ctx.bucket(backend)
        try:
            src = emu.Source(purity=pu_a, brightness=br_a, indistinguishability=ind_a, probability_threshold=thr_a)
            smp = emu.Sampler(c, State(occ), source=src, backend=backend)
            dist = {tuple(s): p for s, p in smp.probability_distribution.items()}
        except Exception as e:  # noqa: BLE001
            from .. import srcref  # noqa: PLC0415
            ref_stats = srcref.input_statistics(full_occ, br, pu, ind, 0.0) if thr else {}
            if thr and not any(p >= thr * (1 - 1e-9) for p in ref_stats.values()):
                # the threshold exceeds every input probability: no input is left; whatever the sampler
                # does with an empty input set is outside the property (recorded, not judged)
                ctx.count("threshold_removed_everything:" + type(e).__name__)
                ctx.case(("threshold_removed_everything",), False)
                drain_into(ctx, case)
                continue
            ctx.violation(f"probability_distribution raised {type(e).__name__}: {e}", case=case,
                          mechanism="source_raised:" + type(e).__name__, monitor="driver")
            dist = None
        if dist is not None and not thr:
            if not any(nonideal):
                ctx.bucket("perfect_checked")
                ideal = {tuple(s): p for s, p in emu.Sampler(c, State(occ), backend=backend).probability_distribution.items()}
                worst = max((abs(ideal.get(q, 0) - dist.get(q, 0)) for q in set(ideal) | set(dist)), default=0)
                if worst > 1e-12:
                    ctx.violation(f"perfect source settings differ from the ideal source by {worst:.3g}", case=case,
                                  mechanism="perfect_ne_ideal", monitor="derived: perfect settings")
            if ind == 0 and pu == 1 and br == 1 and sum(full_occ) <= 4:
                ctx.bucket("classical_checked")
                ref = classical(u, c.n_modes, full_occ)
                worst = max((abs(ref.get(q, 0) - dist.get(q, 0)) for q in set(ref) | set(dist)), default=0)
                if worst > 1e-7:
                    ctx.violation(f"indistinguishability 0 differs from classical particles by {worst:.3g}", case=case,
                                  mechanism="classical", monitor="derived: classical particles")
        if dist is not None and not thr and rng.random() < 0.4:
            # the same long-lived sampler after its source was re-tuned by a tiny amount
            which = str(rng.choice(["brightness", "purity", "indistinguishability"]))
            cur = getattr(smp.source, which)
            newv = cur * (1 - float(rng.choice([4e-4, 1e-5, 3e-7]))) if cur > 0.51 else cur
            try:
                setattr(smp.source, which, newv)
                ctx.bucket("source_retuned_by_tiny_amount")
                _ = smp.probability_distribution        # the post-condition monitor recomputes the reference
            except Exception as e:  # noqa: BLE001
                ctx.count("retune_raised:" + type(e).__name__)
        if dist is not None and not thr and rng.random() < 0.3 and k >= 1:
            # identical components, same number of non-heralded modes, but a herald photon (or not) on an extra mode
            try:
                pair = []
                for ph in (0, 1):
                    cc = lw.Circuit(k + 1)
                    for a_, r_ in [(int(rng.integers(max(k, 1))), float(rng.uniform(0.2, 0.8))) for _ in range(3)]:
                        if k + 1 >= 2:
                            cc.bs(a_ % k, a_ % k + 1, r_)
                    pair.append(cc)
                steps_ = pair[0]._get_circuit_spec()
                pair[1] = lw.Circuit(k + 1)
                for sp in steps_:
                    pair[1].bs(sp.mode_1, sp.mode_2, sp.reflectivity)
                hm = int(rng.integers(k + 1))
                pair[0].herald(0, hm)
                pair[1].herald(1, hm)
                smp.circuit = pair[0]
                _ = smp.probability_distribution
                smp.circuit = pair[1]
                _ = smp.probability_distribution          # the monitor recomputes the mixture for the new heralds
                ctx.bucket("sampler_moved_to_other_input_herald")
            except Exception as e:  # noqa: BLE001
                ctx.count("herald_swap_raised:" + type(e).__name__)
        key = (nonideal, bunched, sum(full_occ), n_loss > 0, backend, bool(thr), bool(hph))
        ctx.case(key, any(nonideal), sample=case)
        drain_into(ctx, case)
    merge_stats(ctx)
