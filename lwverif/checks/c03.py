"""C03 - simulator amplitudes are the bosonic Fock-space amplitudes of the circuit.

Deciding monitor: post-condition + exception-path wrapper on
``Simulator.simulate`` (emumon): every returned amplitude is compared with the
own permanent of the photon-indexed sub-matrix of the circuit's U_full with
herald photons inserted and vacuum on loss modes; unit rows for lossless
herald-free circuits; documented invalid arguments must raise."""
from __future__ import annotations

import numpy as np

from .. import boson, circmon, emumon
from ..gen import Builder, equivalent_variant, herald_in_place
from .common import drain_into, merge_stats, setup, too_big

PROPERTY = "C03"
RULE = ("seeded random circuits (trees with heralded sub-circuits, directly declared heralds incl. in!=out, "
        "loss elements) x inputs (single/list, vacuum, bunched up to 3 per mode, <=4 photons) x outputs "
        "(None or explicit lists incl. duplicates), plus a hostile-argument generator for the rejection half; "
        "distinct = (circuit class, sorted input occupation pattern, outputs given?, hostile kind); "
        "non-trivial = bunched input/output, herald in!=out, herald photons, or lossy circuit")
MANDATORY = ["bunched_input", "vacuum_input", "herald_in_ne_out", "herald_photons", "lossy",
             "explicit_outputs", "input_list", "reject_wrong_length", "reject_negative",
             "reject_noninteger", "reject_bool", "reject_photon_mismatch", "reject_nonstate",
             "simulator_reused_after_change", "refused_request_between_change_and_next_question",
             "earlier_question_asked_again_after_change", "five_or_more_photons", "seven_or_more_modes", "same_call_repeated",
             "herald_declared_in_place"]
DECIDING = ["mon.sim_postconditions", "mon.sim_amplitudes_checked", "rejections_checked"]
BUDGET = {"quick": 25, "thorough": 420}
ASSUMPTIONS = ["reference amplitude = own Glynn permanent over the circuit's own U_full and heralds "
               "(C01/C02 decide whether U_full itself is right)", "tolerance 1e-9",
               "cases above 7 photons (incl. herald photons) are skipped and counted"]


def random_state(rng, k, n, bunch_p=0.4):
    occ = [0] * k
    if k == 0:
        return occ
    for _ in range(n):
        if rng.random() < bunch_p and any(occ):
            m = int(rng.choice([i for i, x in enumerate(occ) if x]))
        else:
            m = int(rng.integers(k))
        occ[m] += 1
    return occ


def make_circuit(ctx, lw, rng):
    b = Builder(rng, lw, loss_p=float(rng.choice([0.0, 0.2, 0.4])), max_herald_photons=int(rng.choice([1, 2])))
    n = int(rng.integers(1, 7)) if rng.random() < 0.9 else int(rng.integers(7, 10))
    log: list = []
    mode = rng.random()
    if mode < 0.35:
        c = b.leaf(n, int(rng.integers(0, 8)), log, heralds=int(rng.integers(0, 3)))
    else:
        c = b.tree(n, int(rng.choice([1, 2])), log, max_children=3, direct_heralds_p=0.4)
    c, variant = equivalent_variant(c, rng)
    log.append(["presented_as", variant])
    ctx.bucket("circuit_presented_as:" + variant)
    return c, log


def hostile(ctx, lw, sim, c, rng, log):
    """Arguments that violate a documented precondition must raise (monitor decides)."""
    State = lw.State
    k = c.input_modes
    good = random_state(rng, k, int(rng.integers(0, 3)))
    kinds = ["wrong_length", "negative", "noninteger", "bool", "photon_mismatch", "nonstate"]
    kind = str(rng.choice(kinds))
    outputs = None
    if kind == "wrong_length":
        bad = State(good + [0]) if rng.random() < 0.5 or k == 0 else State(good[:-1])
        if rng.random() < 0.3:
            outputs, bad = [bad], State(good)
    elif kind == "negative":
        if k == 0:
            return
        g = list(good); m = int(rng.integers(k)); g[m] = -1 - int(rng.integers(2))
        if k > 1 and rng.random() < 0.5:     # keep the photon-number sum non-negative
            g[(m + 1) % k] += 2
        bad = State(g)
        if rng.random() < 0.3:
            outputs, bad = [bad], State(random_state(rng, k, sum(g)) if sum(g) >= 0 else good)
    elif kind == "noninteger":
        if k == 0:
            return
        g = list(good); m = int(rng.integers(k)); g[m] = float(rng.choice([1.0, 0.5, 2.0]))
        bad = State(g)
    elif kind == "bool":
        if k == 0:
            return
        g = list(good); g[int(rng.integers(k))] = bool(rng.integers(2))
        bad = State(g)
    elif kind == "photon_mismatch":
        if k == 0:
            return
        a = State(random_state(rng, k, 1)); b2 = State(random_state(rng, k, 2))
        if rng.random() < 0.5:
            bad = [a, b2]
        else:
            bad, outputs = a, [b2]
    else:
        bad = good if rng.random() < 0.5 else [good]
    # placement of the offending state: alone, inside a list of otherwise valid inputs, or among the outputs
    if kind in ("wrong_length", "negative", "noninteger", "bool") and outputs is None and k > 0 \
            and not isinstance(bad, list):
        place = rng.random()
        nph_ok = bad.n_photons if kind in ("wrong_length",) else None
        try:
            tot = sum(x for x in bad.s if isinstance(x, (int, float)) and not isinstance(x, bool))
        except Exception:  # noqa: BLE001
            tot = 0
        tot = int(tot) if tot == int(tot) and tot >= 0 else 1
        goods = [State(random_state(rng, k, tot)) for _ in range(int(rng.integers(1, 3)))]
        if place < 0.25:
            bad = goods + [bad]
            ctx.bucket("reject_placement_last_of_list")
        elif place < 0.5:
            bad = [bad] + goods
            ctx.bucket("reject_placement_first_of_list")
        elif place < 0.7:
            outputs, bad = goods + [bad], goods[0]
            ctx.bucket("reject_placement_in_outputs")
    ctx.bucket("reject_" + kind)
    before = circmon.STATS["sim_calls"]
    try:
        sim.simulate(bad, outputs)
        raised = False
    except Exception:  # noqa: BLE001
        raised = True
    ctx.count("rejections_checked")
    ctx.count("rejections_raised" if raised else "rejections_returned")
    ctx.case(("hostile", kind, k, outputs is None), True)
    drain_into(ctx, {"circuit": log, "hostile": kind, "inputs": repr(bad), "outputs": repr(outputs)})


def extreme_case(ctx, lw, rng):
    """Legal but extreme: (a) many photons bunched on the 2-3 modes of a small circuit (occupation factorials beyond
    2**63), judged against the polynomial-expansion reference; (b) a circuit whose modes are all heralded, so that the
    only visible state is the empty one."""
    State, emu = lw.State, lw.emulator
    from ..gen import haar
    if rng.random() < 0.3:
        # a large default output basis (120 - 500 states) on a circuit with several photon-carrying heralds
        n_tot = int(rng.choice([8, 9, 10]))
        c = lw.Unitary(haar(rng, n_tot))
        log = [["unitary", n_tot]]
        n_h = int(rng.choice([1, 2, 2, 3]))
        hm = [int(x) for x in rng.choice(n_tot, size=n_h, replace=False)]
        ho = [int(x) for x in rng.permutation(hm)] if rng.random() < 0.5 else list(hm)
        hp = [int(x) for x in rng.choice([0, 1, 1, 2], size=n_h)]
        if sum(hp) > 3:
            hp = [1] * n_h
        for a_, b_, n_ in zip(hm, ho, hp):
            c.herald(n_, a_, b_)
            log.append(["herald", n_, a_, b_])
        if rng.random() < 0.3:
            c.loss(int(rng.integers(c.input_modes)), float(rng.uniform(0.05, 0.5)))
            log.append(["loss"])
        k = c.input_modes
        nph = int(rng.choice([3, 4])) if sum(hp) <= 2 else 3
        s_in = State(random_state(rng, k, nph))
        ctx.bucket("large_default_basis")
        if sum(1 for x in hp if x) >= 2:
            ctx.bucket("large_default_basis_two_photon_heralds")
        case = {"circuit": log, "inputs": [s_in.s], "outputs": None}
        try:
            emu.Simulator(c).simulate(s_in)
        except Exception as e:  # noqa: BLE001 - judged by the monitor
            ctx.count("simulate_raised:" + type(e).__name__)
        ctx.case(("large_basis", k, nph, tuple(hp)), True, sample=case)
        drain_into(ctx, case)
        return
    if rng.random() < 0.7:
        k = int(rng.choice([2, 2, 3]))
        c = lw.Unitary(haar(rng, k))
        log = [["unitary", k]]
        if rng.random() < 0.3:
            c.loss(int(rng.integers(k)), float(rng.uniform(0.05, 0.6)))
            log.append(["loss"])
        total = int(rng.choice([8, 10, 12, 13, 14, 15, 16, 18, 20, 21]))
        occ = [0] * k
        occ[int(rng.integers(k))] = total - (cut := int(rng.integers(0, total // 2 + 1)))
        occ[int(rng.choice([i for i in range(k) if occ[i] == 0]))] = cut
        s_in = State(occ)
        n_total = c.U_full.shape[0]
        if total <= 14 and rng.random() < 0.5:
            outs = None
        else:
            outs = []
            for _ in range(int(rng.integers(1, 4))):
                o = [0] * k
                o[int(rng.integers(k))] = total - (cut := int(rng.integers(0, total // 2 + 1)))
                o[int(rng.choice([i for i in range(k) if o[i] == 0]))] += cut
                outs.append(State(o))
            if rng.random() < 0.4:
                outs.append(State(occ))
        ctx.bucket("many_bunched_photons")
        if total >= 13:
            ctx.bucket("occupation_factorials_beyond_64_bits")
        case = {"circuit": log, "inputs": [occ], "outputs": None if outs is None else [o.s for o in outs], "modes": n_total}
    else:
        k = int(rng.integers(1, 4))
        c = lw.Circuit(k)
        if k >= 2:
            c.bs(0, 1, float(rng.uniform(0.1, 0.9)))
            if k == 3:
                c.bs(1, 2, float(rng.uniform(0.1, 0.9)))
        else:
            c.ps(0, 0.7)
        hs = [int(rng.integers(0, 2)) for _ in range(k)]
        for m in rng.permutation(k):
            c.herald(hs[int(m)], int(m))
        s_in = State([])
        outs = None if rng.random() < 0.5 else [State([])]
        ctx.bucket("every_mode_heralded")
        case = {"circuit": [["circuit", k], "every mode heralded", hs], "inputs": [[]], "outputs": None if outs is None else [[]]}
    try:
        emu.Simulator(c).simulate(s_in, outs)
    except RecursionError:
        ctx.count("simulate_raised:RecursionError")
    except Exception as e:  # noqa: BLE001 - judged by the monitor
        ctx.count("simulate_raised:" + type(e).__name__)
    ctx.case(("extreme", tuple(case["inputs"][0]), outs is None), True, sample=case)
    drain_into(ctx, case)


def run(ctx):
    lw = setup(ctx)
    emumon.install()
    rng = ctx.rng
    State = lw.State
    emu = lw.emulator
    pool: list = []
    while not ctx.out_of_time():
        if rng.random() < 0.05:
            extreme_case(ctx, lw, rng)
        # simulators used earlier must still answer as they did (no interference between objects)
        for old_sim, a_in, a_out, arr0, fp0 in pool[:2]:
            try:
                if circmon.circuit_fingerprint(old_sim.circuit) == fp0:
                    ctx.count("earlier_objects_rechecked")
                    if not np.array_equal(old_sim.simulate(a_in, a_out).array, arr0):
                        ctx.violation("an earlier Simulator answers differently after other simulators were used",
                                      mechanism="earlier_object_changed", monitor="earlier-object re-read")
            except Exception as e:  # noqa: BLE001
                ctx.count("reread_raised:" + type(e).__name__)
        circmon.drain()
        try:
            c, log = make_circuit(ctx, lw, rng)
        except Exception as e:  # noqa: BLE001  (construction problems are C02's business)
            ctx.count("construction_raised:" + type(e).__name__)
            circmon.drain()
            continue
        circmon.drain()
        if too_big(c, 16, 5):
            ctx.count("skipped_size")
            continue
        sim = emu.Simulator(c)
        k = c.input_modes
        h = c.heralds
        hph = sum(h["input"].values())
        lossy = c.U_full.shape[0] > c.n_modes
        ne = sorted(h["input"]) != sorted(h["output"])
        for _ in range(int(rng.integers(1, 4))):
            nph = int(rng.integers(0, 5 if k <= 4 else 4))
            if k <= 3 and rng.random() < 0.1:
                nph = int(rng.integers(5, 7))          # many photons on few modes
                ctx.bucket("five_or_more_photons")
            if k >= 7:
                nph = min(nph, 2)
                ctx.bucket("seven_or_more_modes")
            if nph + hph > 6:
                nph = max(0, 6 - hph)
            n_in = 1 if rng.random() < 0.6 else int(rng.integers(2, 4))
            ins = [State(random_state(rng, k, nph)) for _ in range(n_in)]
            arg_in = ins[0] if (n_in == 1 and rng.random() < 0.7) else ins
            outs = None
            if rng.random() < 0.4:
                outs = [State(random_state(rng, k, nph)) for _ in range(int(rng.integers(1, 6)))]
                if rng.random() < 0.3:
                    outs.append(outs[0])
            if outs is not None and len(outs) == 1 and rng.random() < 0.5:
                outs = outs[0]                      # a single State instead of a list
                ctx.bucket("outputs_single_state")
            outs_l = [outs] if (outs is not None and not isinstance(outs, list)) else outs
            bunched = any(max(s.s, default=0) > 1 for s in ins) or (outs_l and any(max(s.s, default=0) > 1 for s in outs_l))
            if bunched: ctx.bucket("bunched_input")
            if nph == 0: ctx.bucket("vacuum_input")
            if ne: ctx.bucket("herald_in_ne_out")
            if hph: ctx.bucket("herald_photons")
            if lossy: ctx.bucket("lossy")
            if outs is not None: ctx.bucket("explicit_outputs")
            if isinstance(arg_in, list): ctx.bucket("input_list")
            case = {"circuit": log, "inputs": [s.s for s in ins], "outputs": None if outs is None else [s.s for s in outs_l]}
            try:
                r1 = sim.simulate(arg_in, outs)
                if rng.random() < 0.3:
                    r2 = sim.simulate(arg_in, outs)          # the same question again must give the same answer
                    ctx.bucket("same_call_repeated")
                    if not np.array_equal(r1.array, r2.array):
                        ctx.violation("the same simulate() call repeated gave a different array", case=case,
                                      mechanism="repeat_differs", monitor="repeated call")
                pool.append((sim, arg_in, outs, np.array(r1.array, copy=True), circmon.circuit_fingerprint(c)))
                del pool[:-4]
            except Exception as e:  # noqa: BLE001  - the monitor judges the exception path
                ctx.count("simulate_raised:" + type(e).__name__)
            key = ((k, len(h["input"]), ne, hph, lossy), tuple(sorted(tuple(sorted(s.s)) for s in ins)), outs is None)
            ctx.case(key, bool(bunched or ne or lossy or hph), sample=case)
            drain_into(ctx, case)
        if rng.random() < 0.6:
            hostile(ctx, lw, sim, c, rng, log)
        if rng.random() < 0.4 and k > 0:
            # the same long-lived Simulator after the circuit was edited in place / replaced
            try:
                nn = c.n_modes - len(c._internal_modes)
                r_re = rng.random()
                if r_re < 0.35 and herald_in_place(c, rng):
                    k = c.input_modes
                    log.append(["herald_declared_in_place"])
                    ctx.bucket("herald_declared_in_place")
                elif r_re < 0.6:
                    c.ps(int(rng.integers(nn)), 1.234)
                    if nn >= 2:
                        c.bs(0, 1, 0.3, float(rng.choice([0, 0.2])))
                    log.append(["edited_in_place"])
                else:
                    c2, log2 = make_circuit(ctx, lw, rng)
                    circmon.drain()
                    if c2.input_modes == k:
                        sim.circuit = c2
                        c, log = c2, log2 + [["reassigned_to_simulator"]]
                ctx.bucket("simulator_reused_after_change")
                st = State(random_state(rng, k, int(rng.integers(0, 3))))
                case = {"circuit": log, "inputs": [st.s], "outputs": None, "reused_simulator": True}
                if rng.random() < 0.5:
                    # a request the simulator must refuse comes first, on the changed circuit
                    bad = [State([1] * (k + 1)), State([-1] + [0] * max(0, k - 1)), State([0.5] + [0] * max(0, k - 1)),
                           "outputs_mismatch"][int(rng.integers(4))]
                    try:
                        if isinstance(bad, str):
                            sim.simulate(State([1] + [0] * (k - 1)), State([2] + [0] * (k - 1)))
                        else:
                            sim.simulate(bad)
                    except Exception as e:  # noqa: BLE001  (the exception-path monitor judges it)
                        ctx.count("refused_after_change:" + type(e).__name__)
                    ctx.bucket("refused_request_between_change_and_next_question")
                    case["refused_request_first"] = True
                try:
                    sim.simulate(st)
                    if c.input_modes == len(ins[0]):
                        # and a question this simulator has already answered before the change
                        ctx.bucket("earlier_question_asked_again_after_change")
                        case["inputs"].append([s_.s for s_ in ins])
                        sim.simulate(arg_in, outs)
                except Exception as e:  # noqa: BLE001
                    ctx.count("simulate_raised:" + type(e).__name__)
                ctx.case(("reuse", k, len(c.heralds["input"])), True)
                drain_into(ctx, case)
            except Exception as e:  # noqa: BLE001
                ctx.count("reuse_construction_raised:" + type(e).__name__)
                circmon.drain()
    merge_stats(ctx)
