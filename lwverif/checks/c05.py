"""C05 - Simulator, Sampler, Analyzer and QuickSampler tell one consistent story.

For every generated configuration the driver asks all four objects; wrappers on
their API boundary record the results as events, and a relation checker over
the recorded events decides: analyzer probabilities = sampler probabilities of
the corresponding heralded outputs, performance, error rate, quick-sampler =
conditioned + renormalised sampler distribution, |amplitude|^2 = probability
for lossless circuits, and no object refuses what the others accept."""
from __future__ import annotations

import numpy as np

from .. import boson, circmon, emumon
from ..emumon import insert_heralds
from ..gen import Builder, equivalent_variant, herald_in_place
from .c03 import random_state
from .common import drain_into, merge_stats, setup, too_big

PROPERTY = "C05"
RULE = ("seeded random configurations: circuit (0-3 heralds of 0-2 photons incl. in!=out, heralded library gates, "
        "optional loss) x post-selection (none / PostSelection rule set / predicate) x 1-3 equal-photon-number "
        "inputs x expected-output map x quick-sampler detector mode; distinct = (herald photon pattern, in!=out, "
        "lossy, post-selection kind, #inputs, detector mode, photons, modes); non-trivial = heralds or loss or "
        "post-selection present")
MANDATORY = ["herald_with_negative_photon_number_offered", "herald_with_photon", "herald_in_ne_out", "post_selection_rejects", "threshold_bunched_candidate",
             "lossy", "predicate_post_selection", "rule_post_selection", "error_rate_checked", "rule_added_in_place", "rule_added_to_empty_post_selection", "expected_in_other_order", "herald_declared_in_place"]
DECIDING = ["rel_analyzer_vs_sampler", "rel_quick_vs_sampler", "rel_simulator_vs_sampler", "rel_performance"]
BUDGET = {"quick": 30, "thorough": 480}
ASSUMPTIONS = ["relations are checked between the objects' own results: absolute tolerance 1e-10 plus the documented 1e-9 "
               "per-state truncation of the sampler times the number of loss-mode patterns; for ratios (error rate, "
               "renormalised quick-sampler distribution) that allowance is divided by the accepted total",
               "nothing injected on the visible modes (also with photon-carrying heralds, also with no visible mode at all) is an "
               "ordinary configuration: all four objects must answer consistently"]

TOL = 1e-10


def make_post_selection(lw, rng, k):
    """Returns (object_or_function_or_None, kind, python predicate on a list)."""
    r = rng.random()
    if r < 0.35 or k == 0:
        return None, "none", (lambda s: True)
    if r < 0.7:
        multi = bool(rng.random() < 0.5)
        ps = lw.PostSelection(multi_rules=multi)
        rules = []
        used = set()
        for _ in range(int(rng.integers(1, 3))):
            size = int(rng.integers(1, min(k, 3) + 1))
            avail = [m for m in range(k) if multi or m not in used]
            if len(avail) < size:
                break
            modes = tuple(sorted(rng.choice(avail, size=size, replace=False).tolist()))
            nums = tuple(sorted(set(rng.integers(0, 3, size=int(rng.integers(1, 3))).tolist())))
            # the rule in one of the equivalent forms add() accepts (single values or sequences; tuples, lists,
            # shuffled order, numpy integers)
            f_m, f_n = list(modes), list(nums)
            if rng.random() < 0.4:
                rng.shuffle(f_m); rng.shuffle(f_n)
            form = int(rng.integers(4))
            if form == 1:
                f_m, f_n = tuple(f_m), tuple(f_n)
            elif form == 2:
                f_m, f_n = [np.int64(x) for x in f_m], tuple(np.int64(x) for x in f_n)
            elif form == 3:
                f_m, f_n = tuple(f_m), list(f_n)
            if size == 1 and rng.random() < 0.5:
                ps.add(f_m[0], f_n if len(f_n) > 1 else f_n[0])
            else:
                ps.add(f_m, f_n)
            used.update(modes)
            rules.append((modes, nums))
        return ps, "rules", (lambda s, rules=tuple(rules): all(sum(s[m] for m in ms) in ns for ms, ns in rules))
    which = int(rng.integers(6))
    m = int(rng.integers(k))
    # (3-5: predicates written against the documented argument type, a State: its attributes and State-valued slices)
    if which == 3:
        return (lambda s: s[: m + 1].n_photons >= 1), "predicate_state_api", (lambda s: sum(s[: m + 1]) >= 1)
    if which == 4:
        return (lambda s: s.s[m] <= 1), "predicate_state_api", (lambda s: s[m] <= 1)
    if which == 5:
        return (lambda s: s.n_modes == k and s[m] <= 1), "predicate_state_api", (lambda s: s[m] <= 1)
    if which == 0:
        return (lambda s: s[m] <= 1), "predicate", (lambda s: s[m] <= 1)
    if which == 1:
        return (lambda s: sum(s[: m + 1]) >= 1), "predicate", (lambda s: sum(s[: m + 1]) >= 1)
    return (lambda s: max(s) <= 1), "predicate", (lambda s: max(s) <= 1)


def make_circuit(lw, rng):
    log: list = []
    b = Builder(rng, lw, loss_p=float(rng.choice([0.0, 0.0, 0.3])), max_herald_photons=int(rng.choice([1, 2])))
    if b.loss_p == 0:
        b.allow = b.allow - {"loss"}
    r = rng.random()
    if rng.random() < 0.03:
        # every mode heralded: the empty state is the only visible input and output
        n = int(rng.integers(1, 4))
        c = b.leaf(n, int(rng.integers(1, 5)), log)
        outs = [int(x) for x in (rng.permutation(n) if rng.random() < 0.4 else np.arange(n))]
        for m in rng.permutation(n):
            c.herald(int(rng.integers(0, 2)), int(m), outs[int(m)])
            log.append(["herald", "all modes", int(m), outs[int(m)]])
        return c, log
    if rng.random() < 0.04:
        # wide unitary with several heralds (some carrying photons, some with in != out): large output bases
        from ..gen import haar
        n = int(rng.choice([7, 8, 9]))
        c = lw.Unitary(haar(rng, n)); log.append(["unitary", n])
        n_h = int(rng.integers(1, 4))
        hm = [int(x) for x in rng.choice(n, size=n_h, replace=False)]
        ho = [int(x) for x in rng.permutation(hm)] if rng.random() < 0.5 else list(hm)
        for a_, b_ in zip(hm, ho):
            nh_ = int(rng.choice([0, 1, 1]))
            c.herald(nh_, a_, b_); log.append(["herald", nh_, a_, b_])
        if rng.random() < 0.3:
            c.loss(int(rng.integers(c.input_modes)), float(rng.uniform(0.05, 0.5))); log.append(["loss"])
        log.append(["wide"])
        return c, log
    if r < 0.2:
        g = str(rng.choice(["CNOT_Heralded", "CZ_Heralded", "CNOT", "CZ"]))
        c = lw.Circuit(4); log.append(["circuit", 4])
        for _ in range(int(rng.integers(0, 3))):
            b.primitive(c, log, 4)
        c.add(getattr(lw.qubit, g)(), 0); log.append(["add", [["gate", g]], 0, False])
        for _ in range(int(rng.integers(0, 3))):
            b.primitive(c, log, 4)
    elif r < 0.6:
        n = int(rng.integers(2, 6))
        c = b.leaf(n, int(rng.integers(1, 7)), log, heralds=int(rng.integers(0, 3)),
                   herald_neq_p=float(rng.choice([0.0, 0.5])))
    else:
        c = b.tree(int(rng.integers(2, 6)), 1, log, max_children=2, direct_heralds_p=0.3)
    c, variant = equivalent_variant(c, rng)
    log.append(["presented_as", variant])
    if rng.random() < 0.03 and c.input_modes >= 2:
        # a herald that is to carry a negative number of photons: refused when declared (then the circuit goes on as it
        # is), or - if some version of the library takes it - a circuit like any other, on which the four objects must agree
        try:
            ext_ = c._external_heralds
            free = [m for m in range(c.n_modes - len(c._internal_modes))
                    if c._map_mode(m) not in ext_["input"] and c._map_mode(m) not in ext_["output"]]
        except Exception:  # noqa: BLE001
            free = []
        if free:
            m_ = int(free[int(rng.integers(len(free)))])
            try:
                c.herald(int(rng.choice([-1, -2])), m_)
                log.append(["herald", "negative photon number", m_])
                NEG["accepted"] += 1
            except (ValueError, TypeError):
                NEG["refused"] += 1
    return c, log


NEG = {"accepted": 0, "refused": 0}


def run(ctx):
    lw = setup(ctx)
    emumon.install()
    rng = ctx.rng
    State, emu = lw.State, lw.emulator
    while not ctx.out_of_time():
        try:
            c, log = make_circuit(lw, rng)
        except Exception as e:  # noqa: BLE001
            ctx.count("construction_raised:" + type(e).__name__)
            circmon.drain()
            continue
        for k_neg in ("accepted", "refused"):
            if NEG[k_neg]:
                ctx.count("herald_with_negative_photon_number_" + k_neg, NEG[k_neg])
                ctx.bucket("herald_with_negative_photon_number_offered")
                NEG[k_neg] = 0
        circmon.drain()
        k = c.input_modes
        h = c.heralds
        hph = sum(h["input"].values())
        u = c.U_full
        n_loss = u.shape[0] - c.n_modes
        lossy = n_loss > 0
        if n_loss > 4 or too_big(c):
            ctx.count("skipped_size")
            continue
        ne = sorted(h["input"]) != sorted(h["output"])
        nph = int(rng.integers(1, 4))
        if nph + hph > 5:
            nph = max(1, 5 - hph)
        if k == 0 or rng.random() < 0.06:
            nph = 0                      # nothing injected on the visible modes (the heralds may still carry photons)
            ctx.bucket("vacuum_visible_input")
            if hph:
                ctx.bucket("vacuum_visible_input_with_herald_photons")
        if k == 0:
            ctx.bucket("every_mode_heralded")
        if log and log[-1] == ["wide"]:
            ctx.bucket("wide_circuit_large_basis")
        n_inputs = int(rng.integers(1, 4))
        inputs = []
        for _ in range(n_inputs):
            s = State(random_state(rng, k, nph))
            if s not in inputs:
                inputs.append(s)
        ps_obj, ps_kind, pred = make_post_selection(lw, rng, k)
        pc = bool(rng.random() < 0.6)
        case = {"circuit": log, "inputs": [s.s for s in inputs], "post_selection": ps_kind,
                "photon_counting": pc, "heralds": {"in": h["input"], "out": h["output"]}}
        if hph: ctx.bucket("herald_with_photon")
        if ne: ctx.bucket("herald_in_ne_out")
        if lossy: ctx.bucket("lossy")
        if ps_kind.startswith("predicate"): ctx.bucket("predicate_post_selection")
        if ps_kind == "predicate_state_api": ctx.bucket("predicate_uses_state_api")
        if ps_kind == "rules": ctx.bucket("rule_post_selection")

        # --- ask the four objects (results are what the relation checker consumes)
        outcome = {}
        sdists = []
        try:
            for s in inputs:
                d = emu.Sampler(c, s).probability_distribution
                sdists.append({tuple(st): p for st, p in d.items()})
            outcome["sampler"] = "ok"
        except Exception as e:  # noqa: BLE001
            outcome["sampler"] = type(e).__name__ + ": " + str(e)[:80]
        sim_res = None
        refuse_first = bool(rng.random() < 0.15)
        if refuse_first:
            ctx.bucket("objects_asked_after_refused_requests")
        try:
            sim_ = emu.Simulator(c)
            if refuse_first:
                for bad_ in (State([1] * (k + 1)), [State(inputs[0].s), State([0] * k) if nph else State([1] + [0] * (k - 1))] if k else 3, "state"):
                    try:
                        sim_.simulate(bad_)
                    except Exception:  # noqa: BLE001
                        pass
            sim_res = sim_.simulate(inputs)
            outcome["simulator"] = "ok"
        except Exception as e:  # noqa: BLE001
            outcome["simulator"] = type(e).__name__ + ": " + str(e)[:80]
        an_res = None
        expected = None
        an = emu.Analyzer(c)
        try:
            if refuse_first:
                for fn_ in (lambda: an.analyze(State([1] * (k + 2))), lambda: setattr(an, "post_selection", 5),
                            lambda: an.analyze(inputs, {State([1] * (k + 1)): State([0] * k)}), lambda: an.analyze("state"),
                            lambda: setattr(an, "circuit", 3)):
                    try:
                        fn_()
                    except Exception:  # noqa: BLE001
                        pass
            an.post_selection = ps_obj
            an_res = an.analyze(inputs[0] if (len(inputs) == 1 and rng.random() < 0.5) else inputs)
            outcome["analyzer"] = "ok"
        except Exception as e:  # noqa: BLE001
            outcome["analyzer"] = type(e).__name__ + ": " + str(e)[:80]
        an_res2 = None
        if an_res is not None and len(an_res.outputs) > 0:
            expected = {}
            for s in inputs:
                n_exp = int(rng.integers(1, 3))
                idx = rng.choice(len(an_res.outputs), size=min(n_exp, len(an_res.outputs)), replace=False)
                outs = [an_res.outputs[int(i)] for i in idx]
                if rng.random() < 0.15:
                    outs = outs + [State(list(outs[0].s))]      # the same expected state listed twice: still one state
                    ctx.bucket("expected_state_listed_twice")
                expected[s] = outs[0] if (len(outs) == 1 and rng.random() < 0.5) else outs
            if len(expected) >= 2 and rng.random() < 0.6:
                items = list(expected.items())
                rng.shuffle(items)                    # the order in which the mapping was written must not matter
                expected = dict(items)
                ctx.bucket("expected_in_other_order")
            if rng.random() < 0.2:
                extra = State(random_state(rng, k, nph))
                if extra not in expected:
                    expected[extra] = an_res.outputs[0]       # an entry for an input that is not analysed
            try:
                an_res2 = emu.Analyzer(c)
                an_res2.post_selection = ps_obj
                an_res2 = an_res2.analyze(inputs, expected)
            except Exception as e:  # noqa: BLE001
                outcome["analyzer_expected"] = type(e).__name__ + ": " + str(e)[:80]
                an_res2 = None
        qs_dist = None
        try:
            qs = emu.QuickSampler(c, inputs[0], photon_counting=pc, post_select=ps_obj)
            if refuse_first:
                for fn_ in (lambda: setattr(qs, "input_state", State([1] * (k + 1))) or qs.probability_distribution,
                            lambda: setattr(qs, "post_select", 5), lambda: setattr(qs, "photon_counting", "yes"),
                            lambda: setattr(qs, "circuit", None), lambda: qs.sample_N_outputs(-1)):
                    try:
                        fn_()
                    except Exception:  # noqa: BLE001
                        pass
                qs.input_state = inputs[0]
            qs_dist = {tuple(st): p for st, p in qs.probability_distribution.items()}
            outcome["quick"] = "ok"
        except Exception as e:  # noqa: BLE001
            outcome["quick"] = type(e).__name__ + ": " + str(e)[:80]
        case["outcome"] = outcome

        # --- relation checker
        herald_out = h["output"]
        hmodes = sorted(herald_out)
        # the sampler drops full output states (incl. loss-mode patterns) below 1e-9: each visible pattern can be
        # under-reported by 1e-9 x (number of loss-mode patterns); ratios amplify that by 1/total
        trunc = 1e-9 * boson.n_fock(n_loss + 1, nph + hph)
        tol_abs = TOL + trunc
        # the permanent backend books everything it dropped on the all-vacuum pattern of a lossy circuit
        tol_vac = TOL + 1e-9 * boson.n_fock(u.shape[0], nph + hph)

        def visible(full):
            return [x for m, x in enumerate(full) if m not in herald_out]

        def heralds_ok(full):
            return all(full[m] == herald_out[m] for m in hmodes)

        if outcome["sampler"] == "ok":
            # accepted (heralded, post-selected) visible patterns per input, from the sampler's own distribution
            acc = []
            for d in sdists:
                a: dict = {}
                for full, p in d.items():
                    if heralds_ok(full):
                        v = tuple(visible(full))
                        if (lossy or sum(v) == nph) and pred(list(v)):
                            a[v] = a.get(v, 0.0) + p
                acc.append(a)
            if any(not pred(list(v)) for d in sdists for v in [visible(f) for f in d if heralds_ok(f)]):
                ctx.bucket("post_selection_rejects")
            # (a) analyzer
            if an_res is not None:
                ctx.count("rel_analyzer_vs_sampler")
                arr = an_res.array
                outs = [tuple(o.s) for o in an_res.outputs]
                bad = None
                for i, a in enumerate(acc):
                    for j, o in enumerate(outs):
                        if abs(arr[i, j] - a.get(o, 0.0)) > (tol_abs if (sum(o) or not lossy) else tol_vac):
                            bad = (f"analyzer p({inputs[i].s}->{list(o)}) = {arr[i, j]:.9f}, sampler gives "
                                   f"{a.get(o, 0.0):.9f} for the corresponding heralded output")
                            break
                    missing = [v for v, p in a.items() if p > tol_abs and v not in outs]
                    if not bad and missing:
                        bad = f"analyzer outputs miss accepted pattern {list(missing[0])} (p={a[missing[0]]:.6f})"
                    if bad:
                        break
                if bad:
                    ctx.violation(bad, case=case, mechanism="analyzer_vs_sampler", monitor="relation checker")
                ctx.count("rel_performance")
                perf = float(np.mean([sum(a.values()) for a in acc]))
                if abs(an_res.performance - perf) > tol_abs * max(1, len(outs)) + (tol_vac if lossy else 0):
                    ctx.violation(f"analyzer performance {an_res.performance:.9f}, mean accepted total {perf:.9f}",
                                  case=case, mechanism="analyzer_performance", monitor="relation checker")
                if hasattr(an_res, "error_rate"):
                    ctx.violation("analysis result carries error_rate although no expected mapping was passed",
                                  case=case, mechanism="stale_error_rate", monitor="relation checker")
            elif outcome["analyzer"].startswith("ValueError: No valid outputs"):
                ctx.count("analyzer_documented_refusal")
                if any(sum(a.values()) > TOL for a in acc):
                    ctx.violation("analyzer found no valid outputs but the sampler gives accepted probability "
                                  f"{max(sum(a.values()) for a in acc):.6f}", case=case,
                                  mechanism="analyzer_refuses", monitor="relation checker")
            elif outcome["simulator"] == "ok":
                ctx.violation(f"analyzer raised {outcome['analyzer']} on a configuration the sampler and simulator "
                              f"accept (heralds in={h['input']} out={h['output']})", case=case,
                              mechanism="analyzer_raises:" + outcome["analyzer"].split(":")[0]
                              + (":herald_photons" if hph else "") + (":in_ne_out" if ne else ""),
                              monitor="relation checker")
            # (c) error rate
            if an_res2 is not None and all(sum(a.values()) > 1e-6 for a in acc):
                ctx.bucket("error_rate_checked")
                errs = []
                for i, s in enumerate(inputs):
                    e = expected[s]
                    e = [e] if isinstance(e, State) else e
                    tot = sum(acc[i].values())
                    errs.append(1 - sum(acc[i].get(o_, 0.0) for o_ in {tuple(o.s) for o in e}) / tot)
                er = float(np.mean(errs))
                min_tot = min(sum(a.values()) for a in acc)
                if not abs(getattr(an_res2, "error_rate", np.nan) - er) <= 1e-6 + 4 * (trunc * max(1, len(an_res2.outputs)) + (tol_vac if lossy else 0)) / min_tot:
                    ctx.violation(f"analyzer error_rate {getattr(an_res2, 'error_rate', None)}, "
                                  f"1 - accepted-and-expected fraction = {er:.9f}", case=case,
                                  mechanism="analyzer_error_rate", monitor="relation checker")
            # (d) quick sampler
            a0 = {v: p for v, p in acc[0].items() if sum(v) == nph and (pc or max(v, default=0) <= 1)}
            if not pc and any(max(v, default=0) > 1 for v in acc[0]):
                ctx.bucket("threshold_bunched_candidate")
            tot = sum(a0.values())
            if qs_dist is not None:
                ctx.count("rel_quick_vs_sampler")
                if tot > 1e-6:
                    keys = set(a0) | set(qs_dist)
                    worst = max(abs(a0.get(q, 0.0) / tot - qs_dist.get(q, 0.0)) for q in keys)
                    if worst > 1e-6 + 4 * (1e-9 + trunc) * max(1, len(keys)) / tot:
                        q = max(keys, key=lambda q: abs(a0.get(q, 0.0) / tot - qs_dist.get(q, 0.0)))
                        ctx.violation(f"quick sampler p({list(q)}) = {qs_dist.get(q, 0.0):.9f}, conditioned and "
                                      f"renormalised sampler distribution gives {a0.get(q, 0.0) / tot:.9f}",
                                      case=case, mechanism="quick_vs_sampler", monitor="relation checker")
            elif tot > 1e-6:
                ctx.violation(f"quick sampler raised {outcome['quick']} although the conditioned sampler "
                              f"distribution has mass {tot:.6f}", case=case,
                              mechanism="quick_raises:" + outcome["quick"].split(":")[0], monitor="relation checker")
            else:
                ctx.count("quick_documented_refusal")
            # (e) simulator
            if sim_res is not None and not lossy:
                ctx.count("rel_simulator_vs_sampler")
                outs = [tuple(o.s) for o in sim_res.outputs]
                for i, d in enumerate(sdists):
                    a_all: dict = {}
                    for full, p in d.items():
                        if heralds_ok(full):
                            v = tuple(visible(full))
                            a_all[v] = a_all.get(v, 0.0) + p
                    worst = max(abs(abs(sim_res.array[i, j]) ** 2 - a_all.get(o, 0.0)) for j, o in enumerate(outs))
                    if worst > tol_abs:
                        ctx.violation(f"|simulator amplitude|^2 differs from sampler probability by {worst:.3g} "
                                      f"for input {inputs[i].s}", case=case, mechanism="simulator_vs_sampler",
                                      monitor="relation checker")
                        break
            elif sim_res is None:
                ctx.violation(f"simulator raised {outcome['simulator']} on a configuration the sampler accepts",
                              case=case, mechanism="simulator_raises", monitor="relation checker")
            # (g) the same long-lived objects after a rule is added in place to their PostSelection
            if ps_kind == "rules" and getattr(ps_obj, "multi_rules", False) and qs_dist is not None and ps_obj.modes:
                m_add = int(rng.choice(ps_obj.modes))
                nums = [(0, 1), (1,), (0,), (1, 2)][int(rng.integers(4))]
                if m_add < k:
                    # (a long-lived Sampler draws with the rule set as it is now, and again after the rule was added)
                    smp_g = None
                    try:
                        smp_g = emu.Sampler(c, inputs[0])
                        smp_g.sample_N_outputs(50, ps_obj, seed=7)
                        smp_g.sample_N_inputs(50, ps_obj, seed=7)
                    except Exception:  # noqa: BLE001
                        smp_g = None
                    ps_obj.add(m_add, nums)
                    ctx.bucket("rule_added_in_place")
                    pred2 = (lambda s, p=pred, m=m_add, ns=nums: p(s) and s[m] in ns)
                    if smp_g is not None:
                        for meth_ in ("sample_N_outputs", "sample_N_inputs"):
                            try:
                                drawn = getattr(smp_g, meth_)(200, ps_obj, seed=11)
                            except Exception:  # noqa: BLE001 - nothing acceptable is left: a documented refusal
                                continue
                            ctx.count("rel_sampler_draws_after_in_place_rule")
                            bad_ = [list(st) for st in drawn if not pred2(list(st))]
                            if bad_:
                                ctx.violation(f"after adding rule ({m_add}, {nums}) to the PostSelection in place, "
                                              f"Sampler.{meth_} of a sampler that had used it before returns {bad_[0]}, "
                                              f"which the rules now forbid", case=case,
                                              mechanism="sampler_draws_after_in_place_rule:" + meth_,
                                              monitor="relation checker")
                    a2 = {}
                    for full, p in sdists[0].items():
                        if heralds_ok(full):
                            v = tuple(visible(full))
                            if sum(v) == nph and pred2(list(v)) and (pc or max(v, default=0) <= 1):
                                a2[v] = a2.get(v, 0.0) + p
                    tot2 = sum(a2.values())
                    try:
                        q2 = {tuple(st): p for st, p in qs.probability_distribution.items()}
                    except Exception:  # noqa: BLE001
                        q2 = None
                    ctx.count("rel_quick_after_in_place_rule")
                    if q2 is not None and tot2 > 1e-6:
                        keys = set(a2) | set(q2)
                        worst = max(abs(a2.get(q, 0.0) / tot2 - q2.get(q, 0.0)) for q in keys)
                        if worst > 1e-6 + 4 * (1e-9 + trunc) * max(1, len(keys)) / tot2:
                            ctx.violation(f"after adding rule ({m_add}, {nums}) to its PostSelection in place the quick "
                                          f"sampler differs from the conditioned sampler distribution by {worst:.3g}",
                                          case=case, mechanism="quick_vs_sampler_after_in_place_rule",
                                          monitor="relation checker")
                    elif q2 is None and tot2 > 1e-6:
                        ctx.violation("quick sampler raised after a rule was added in place although the conditioned "
                                      f"sampler distribution has mass {tot2:.6f}", case=case,
                                      mechanism="quick_raises_after_in_place_rule", monitor="relation checker")
            # (g2) an Analyzer and a QuickSampler are handed a PostSelection that is still *empty*; the rule is added to it
            # afterwards, in place. Both must then answer like the conditioned sampler distribution.
            if ps_kind == "none" and k >= 1 and rng.random() < 0.35:
                try:
                    ps_e = lw.PostSelection(multi_rules=bool(rng.random() < 0.5))
                    an_e = emu.Analyzer(c)
                    an_e.post_selection = ps_e
                    qs_e = emu.QuickSampler(c, inputs[0], photon_counting=pc, post_select=ps_e)
                    if rng.random() < 0.5:
                        try:
                            _ = qs_e.probability_distribution
                            an_e.analyze(inputs[0])
                        except Exception:  # noqa: BLE001
                            pass
                    m_add = int(rng.integers(k))
                    nums = [(0, 1), (1,), (0,), (1, 2)][int(rng.integers(4))]
                    ps_e.add(m_add, nums)
                    ctx.bucket("rule_added_to_empty_post_selection")
                    a2: dict = {}
                    for full, p in sdists[0].items():
                        if heralds_ok(full):
                            v = tuple(visible(full))
                            if sum(v) == nph and v[m_add] in nums and (pc or max(v, default=0) <= 1):
                                a2[v] = a2.get(v, 0.0) + p
                    tot2 = sum(a2.values())
                    ctx.count("rel_after_rule_added_to_empty_post_selection")
                    try:
                        q2 = {tuple(st): p for st, p in qs_e.probability_distribution.items()}
                    except Exception:  # noqa: BLE001
                        q2 = None
                    if q2 is not None and tot2 > 1e-6:
                        keys = set(a2) | set(q2)
                        worst = max(abs(a2.get(q, 0.0) / tot2 - q2.get(q, 0.0)) for q in keys)
                        if worst > 1e-6 + 4 * (1e-9 + trunc) * max(1, len(keys)) / tot2:
                            ctx.violation(f"a rule ({m_add}, {nums}) added in place to the (until then empty) PostSelection is "
                                          f"not honoured by the quick sampler: differs from the conditioned sampler "
                                          f"distribution by {worst:.3g}", case=case,
                                          mechanism="quick_vs_sampler_after_rule_added_to_empty", monitor="relation checker")
                    try:
                        r_e = an_e.analyze(inputs[0])
                        bad = [o.s for o in r_e.outputs if o[m_add] not in nums]
                    except Exception:  # noqa: BLE001
                        bad = []
                    if bad:
                        ctx.violation(f"a rule ({m_add}, {nums}) added in place to the (until then empty) PostSelection is not "
                                      f"honoured by the analyzer: it lists output {bad[0]}", case=case,
                                      mechanism="analyzer_ignores_rule_added_to_empty", monitor="relation checker")
                except Exception as e:  # noqa: BLE001
                    ctx.count("empty_post_selection_phase_raised:" + type(e).__name__)
            # (h) the same long-lived objects after a herald was declared in place on the circuit
            if rng.random() < 0.3 and not lossy and sum(h["input"].values()) <= 2:
                try:
                    smp_long = emu.Sampler(c, inputs[0])
                    _ = smp_long.probability_distribution
                    smp_long.sample_N_outputs(20, seed=7)
                    if herald_in_place(c, rng):
                        ctx.bucket("herald_declared_in_place")
                        new_in = State(random_state(rng, c.input_modes, min(nph, 2)))
                        fresh = emu.Sampler(c, new_in)
                        d_fresh = {tuple(st): p for st, p in fresh.probability_distribution.items()}
                        try:
                            smp_long.input_state = new_in
                            d_long = {tuple(st): p for st, p in smp_long.probability_distribution.items()}
                        except Exception as e:  # noqa: BLE001
                            d_long = None
                            ctx.violation(f"after a herald was declared in place, the reused sampler raises "
                                          f"{type(e).__name__}: {e} for an input a fresh sampler accepts", case=case,
                                          mechanism="reused_after_in_place_herald:raises", monitor="relation checker")
                        ctx.count("rel_reused_after_in_place_herald")
                        if d_long is not None and d_long != d_fresh:
                            ctx.violation("after a herald was declared in place, the reused sampler's distribution differs "
                                          "from a fresh sampler's", case=case, mechanism="reused_after_in_place_herald",
                                          monitor="relation checker")
                        for meth in ("sample_N_outputs", "sample_N_inputs"):
                            try:
                                r_fresh = dict(getattr(fresh, meth)(200, seed=11))
                            except Exception:  # noqa: BLE001
                                continue
                            try:
                                r_long = dict(getattr(smp_long, meth)(200, seed=11))
                            except Exception as e:  # noqa: BLE001
                                ctx.violation(f"after a herald was declared in place, {meth} of the reused sampler raises "
                                              f"{type(e).__name__}: {e} where a fresh sampler succeeds", case=case,
                                              mechanism="reused_after_in_place_herald:raises:" + meth,
                                              monitor="relation checker")
                                continue
                            if r_long != r_fresh:
                                ctx.violation(f"after a herald was declared in place, {meth} of the reused sampler differs "
                                              f"from a fresh sampler's with the same seed", case=case,
                                              mechanism="reused_after_in_place_herald:" + meth, monitor="relation checker")
                except Exception as e:  # noqa: BLE001
                    ctx.count("in_place_herald_phase_raised:" + type(e).__name__)
        elif "ok" in (outcome["simulator"], outcome["analyzer"], outcome["quick"]):
            ctx.violation(f"sampler raised {outcome['sampler']} on a configuration another object accepts",
                          case=case, mechanism="sampler_raises", monitor="relation checker")
        key = (tuple(sorted(h["input"].values())), ne, lossy, ps_kind, len(inputs), pc, nph, k)
        ctx.case(key, bool(h["input"] or lossy or ps_kind != "none"), sample=case)
        drain_into(ctx, case)
    merge_stats(ctx)
