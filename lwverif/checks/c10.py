"""C10 - parameters are live, bounded and freezable.

Deciding monitors: a class invariant on ``Parameter`` (min <= value <= max
whenever the sides are numeric; icontract when available, the same predicate in
hand-written wrappers otherwise), an exception-path wrapper on set / min_bound /
max_bound / ParameterDict.__setitem__ (a rejected update changes nothing), a
post-condition on get_all_params against the shadow's parameter set, and the
late-bound shadow comparison on every U read (live values, frozen copies,
invalid values must surface as CircuitCompilationError)."""
from __future__ import annotations

import functools
import os
import sys
from numbers import Number

import numpy as np

from .. import circmon
from ..gen import Builder, pick_phase, pick_unit
from .common import drain_into, merge_stats, setup

PROPERTY = "C10"
RULE = ("seeded stateful histories interleaving: create Parameters (with/without bounds/labels, via ParameterDict), place "
        "them in bs/ps/loss (also in sub-circuits added grouped/ungrouped/nested, one parameter in several places), set "
        "values (valid / out of bounds / out of component range / non-numeric), change bounds (accepted / rejected), "
        "copy, freeze, read U; distinct = sequence of step kinds; non-trivial = >=1 rejected update and >=1 read after "
        "an update")
MANDATORY = ["non_finite_phase_offered", "frozen_read_after_update", "invalid_component_value_on_read", "read_after_update_in_group",
             "rejected_set", "rejected_bound", "parameterdict_set", "shared_parameter", "nested_group_parameter",
             "invalid_reflectivity_on_read", "invalid_loss_on_read"]
DECIDING = ["mon.param_invariant_checks", "mon.param_reject_checks", "get_all_params_postconditions", "mon.cmp"]
BUDGET = {"quick": 25, "thorough": 420}
ASSUMPTIONS = ["a value is 'invalid for its component' when a reflectivity or loss resolves outside [0,1] or a "
               "phase/reflectivity/loss resolves to a non-number, or a phase to nan / +-inf (exp(i phi) is then no phase factor and "
               "U_full not unitary)"]


def isnum(x):
    return isinstance(x, Number) and not isinstance(x, bool)


def bounds_hold(self) -> bool:
    d = self.__dict__
    if "_Parameter__min_bound" not in d or "_Parameter__max_bound" not in d:
        return True          # still inside __init__
    v, lo, hi = self.get(), self.min_bound, self.max_bound
    if not isnum(v):
        return True
    # "within its bounds" is lo <= v <= hi: a NaN value, or a NaN bound, is within nothing
    if lo is not None and isnum(lo) and not v >= lo:
        return False
    if hi is not None and isnum(hi) and not v <= hi:
        return False
    return True


class ParameterInvariantBroken(Exception):
    pass


def install_param_monitors(lw):
    from lightworks.sdk.circuit import parameters as pm
    P, PD = pm.Parameter, pm.ParameterDict
    if getattr(P, "_lwverif", False):
        return
    used_icontract = False
    try:
        deps = os.path.join(os.path.dirname(os.path.dirname(os.path.dirname(os.path.abspath(__file__)))), ".deps")
        if deps not in sys.path:
            sys.path.append(deps)
        import icontract  # noqa: PLC0415

        def counted_invariant(self):
            circmon.STATS["param_invariant_checks"] += 1
            ok = bounds_hold(self)
            if not ok:
                circmon.report("C10", f"Parameter value {self.get()!r} outside its bounds "
                                      f"[{self.min_bound!r}, {self.max_bound!r}]", monitor="Parameter invariant (icontract)",
                               mechanism="bounds_invariant")
            return True   # record and continue: a raising contract would abort what it observes

        newP = icontract.invariant(counted_invariant, error=ParameterInvariantBroken)(P)
        used_icontract = newP is P
    except Exception as e:  # noqa: BLE001
        circmon.STATS["icontract_unavailable:" + type(e).__name__] += 1
    circmon.STATS["param_invariant_via_icontract"] += int(used_icontract)

    def snap(p):
        d = p.__dict__       # during __init__ not every attribute exists yet
        return (repr(d.get("_Parameter__value")), repr(d.get("_Parameter__min_bound", "unset")),
                repr(d.get("_Parameter__max_bound", "unset")), d.get("label"))

    def wrap_reject(owner, name, getp, is_prop=False):
        if is_prop:
            prop = owner.__dict__[name]
            fset = prop.fset

            def setter(self, value):
                before = snap(self)
                try:
                    fset(self, value)
                except BaseException:
                    circmon.STATS["param_reject_checks"] += 1
                    if snap(self) != before:
                        circmon.report("C10", f"rejected {name} update changed the parameter: {before} -> {snap(self)}",
                                       monitor="rejected update atomicity", mechanism="rejected_update_changed:" + name)
                    raise
                if not used_icontract:
                    circmon.STATS["param_invariant_checks"] += 1
                    if not bounds_hold(self):
                        circmon.report("C10", f"Parameter value {self.get()!r} outside bounds after {name} update",
                                       monitor="Parameter invariant", mechanism="bounds_invariant")
            setattr(owner, name, property(prop.fget, setter, doc=prop.__doc__))
            return
        orig = owner.__dict__[name]

        @functools.wraps(orig)
        def w(self, *a, **k):
            p = getp(self, a)
            before = snap(p) if p is not None else None
            try:
                res = orig(self, *a, **k)
            except BaseException:
                circmon.STATS["param_reject_checks"] += 1
                if p is not None and snap(p) != before:
                    circmon.report("C10", f"rejected {name} changed the parameter: {before} -> {snap(p)}",
                                   monitor="rejected update atomicity", mechanism="rejected_update_changed:" + name)
                raise
            if p is not None and not used_icontract:
                circmon.STATS["param_invariant_checks"] += 1
                if not bounds_hold(p):
                    circmon.report("C10", f"Parameter value {p.get()!r} outside bounds after {name}",
                                   monitor="Parameter invariant", mechanism="bounds_invariant")
            return res
        setattr(owner, name, w)

    wrap_reject(P, "set", lambda self, a: self)
    wrap_reject(P, "min_bound", None, is_prop=True)
    wrap_reject(P, "max_bound", None, is_prop=True)

    def pd_target(self, a):
        try:
            return self[a[0]] if a and a[0] in self else None
        except Exception:  # noqa: BLE001
            return None
    wrap_reject(PD, "__setitem__", pd_target)
    P._lwverif = True


def check_params(ctx, c, trace):
    sh = circmon.shadow_of(c)
    if sh is None or sh.tainted:
        return
    got = c.get_all_params()
    want = sh.params()
    ctx.count("get_all_params_postconditions")
    if len(got) != len({id(p) for p in got}):
        ctx.violation("get_all_params lists a parameter more than once", case={"history": trace},
                      mechanism="params_repeated", monitor="get_all_params post-condition")
    if {id(p) for p in got} != {id(p) for p in want}:
        ctx.violation(f"get_all_params lists {len(got)} parameters, the construction history used {len(want)} "
                      f"distinct ones", case={"history": trace}, mechanism="params_set_mismatch",
                      monitor="get_all_params post-condition")


def check_read(ctx, c, trace, rng, label=""):
    status, problems = circmon.compare(c, rng)
    if status != "compared":
        ctx.count("read_skipped_" + status)
        return
    for kind, detail in problems:
        if kind == "unitarity":
            continue
        ctx.violation(f"{label}U read: {kind}: {detail}", case={"history": trace},
                      mechanism="read_" + kind + (":" + detail.split(";")[0].split()[1] if kind == "invalid_not_raised" else ""),
                      monitor="late-bound shadow vs U")


def run(ctx):
    lw = setup(ctx, warm=False)
    install_param_monitors(lw)
    rng = ctx.rng
    P, PD = lw.Parameter, lw.ParameterDict
    while not ctx.out_of_time():
        trace: list = []
        n = int(rng.integers(2, 6))
        c = lw.Circuit(n)
        params = []          # (param, role) role in {"r","phi","loss"}
        pdict = PD()
        if rng.random() < 0.4:
            # a dictionary created from keyword arguments: Parameter objects are kept, plain numbers become Parameters
            p0 = P(pick_unit(rng, 0.2), bounds=[0, 1] if rng.random() < 0.5 else None)
            v1 = pick_phase(rng)
            pdict = PD(first=p0, second=v1)
            ctx.bucket("parameterdict_from_keywords")
            if pdict["first"] is not p0 or not isinstance(pdict["second"], P) or pdict["second"].get() != v1:
                ctx.violation("ParameterDict(first=<Parameter>, second=<number>) does not hold that Parameter object and a "
                              "Parameter with that number", case={"history": [["ParameterDict(**kwargs)"]]},
                              mechanism="parameterdict_view", monitor="driver: ParameterDict")
            params.extend([(pdict["first"], str(rng.choice(["r", "loss"]))), (pdict["second"], "phi")])
        circuits = [c]
        frozen = []
        n_rejected = n_reads_after_update = 0
        updated_since_read = False
        in_group = set()
        for _ in range(int(rng.integers(6, 41 if ctx.tier == "thorough" else 26))):
            step = str(rng.choice(["new", "place", "place", "set", "set", "set_bad", "bound", "bound_bad", "sub",
                                   "copy", "freeze", "read", "read", "pdict", "set_invalid", "rewrite"]))
            try:
                if step == "new" or not params:
                    role = str(rng.choice(["r", "phi", "loss"]))
                    v = pick_unit(rng, 0.2) if role != "phi" else pick_phase(rng)
                    bounds = None
                    if rng.random() < 0.5:
                        lo = v - float(rng.random()) if rng.random() < 0.8 else None
                        hi = v + float(rng.random()) if rng.random() < 0.8 else None
                        if rng.random() < 0.15:
                            lo = hi = v                 # degenerate interval: only the current value is legal
                        bounds = [lo, hi]
                    if bounds is None and isnum(v) and rng.random() < 0.15 and getattr(run, "_last_bounds", None) is not None:
                        # the very list object an earlier Parameter was given its bounds in (if it still fits): the two
                        # Parameters must not share their bounds through it
                        lb = run._last_bounds
                        if (lb[0] is None or lb[0] <= v) and (lb[1] is None or v <= lb[1]):
                            bounds = lb
                            ctx.bucket("bounds_list_object_given_to_two_parameters")
                    if bounds is not None:
                        run._last_bounds = bounds
                    shared_with = None
                    if bounds is not None and bounds is getattr(run, "_last_bounds_owner", (None, None))[0]:
                        shared_with = run._last_bounds_owner[1]
                    p = P(v, bounds=bounds, label="p%d" % len(params) if rng.random() < 0.5 else None)
                    if bounds is not None:
                        run._last_bounds_owner = (bounds, p)
                    if shared_with is not None and isnum(shared_with.get()) and shared_with.get() != v:
                        # tighten the earlier Parameter's bound between the two values: the new one must keep its own
                        want_b = (p.min_bound, p.max_bound)
                        mid = (shared_with.get() + v) / 2
                        try:
                            if v < shared_with.get():
                                shared_with.min_bound = mid
                            else:
                                shared_with.max_bound = mid
                        except Exception:  # noqa: BLE001
                            pass
                        if (p.min_bound, p.max_bound) != want_b or not bounds_hold(p):
                            ctx.violation(f"changing a bound of one Parameter changed the bounds of another that had been "
                                          f"given the same bounds list: {want_b} -> {(p.min_bound, p.max_bound)}, value "
                                          f"{p.get()}", case={"history": trace}, mechanism="bounds_shared_between_parameters",
                                          monitor="driver: Parameter bounds independence")
                    params.append((p, role))
                    if rng.random() < 0.4:
                        pdict["k%d" % len(params)] = p
                    trace.append(["new", role, v, bounds])
                elif step == "place":
                    p, role = params[int(rng.integers(len(params)))]
                    tgt = circuits[int(rng.integers(len(circuits)))]
                    nn = Builder.numbered(tgt)
                    if sum(1 for q, _ in params if q is p) and any(p is q for q in (circmon.shadow_of(tgt).params() if circmon.shadow_of(tgt) else [])):
                        ctx.bucket("shared_parameter")
                    if role == "r" and nn >= 2:
                        a = int(rng.integers(nn - 1))
                        tgt.bs(a, a + 1, p, 0, str(rng.choice(["Rx", "H"])))
                    elif role == "phi":
                        tgt.ps(int(rng.integers(nn)), p)
                    elif role == "loss":
                        if rng.random() < 0.5:
                            tgt.loss(int(rng.integers(nn)), p)
                        else:
                            tgt.ps(int(rng.integers(nn)), 0.3, p)
                    trace.append(["place", role, circuits.index(tgt)])
                elif step == "sub":
                    k = int(rng.integers(1, n + 1))
                    sub = lw.Circuit(k)
                    p, role = params[int(rng.integers(len(params)))]
                    if role == "r" and k >= 2:
                        sub.bs(0, 1, p)
                    elif role == "loss":
                        sub.loss(0, p)
                    else:
                        sub.ps(0, p if role == "phi" else 0.1)
                    nested = bool(rng.random() < 0.4)
                    if nested:
                        outer = lw.Circuit(k)
                        outer.add(sub, 0, bool(rng.random() < 0.5))
                        sub = outer
                        ctx.bucket("nested_group_parameter")
                    grp = bool(rng.random() < 0.6)
                    tgt = circuits[int(rng.integers(len(circuits)))]
                    nn = Builder.numbered(tgt)
                    if k <= nn:
                        tgt.add(sub, int(rng.integers(0, nn - k + 1)), grp)
                        if grp or nested:
                            in_group.add(id(p))
                        trace.append(["sub", role, grp, nested, circuits.index(tgt)])
                elif step in ("set", "set_bad", "set_invalid"):
                    p, role = params[int(rng.integers(len(params)))]
                    if step == "set" and role == "phi" and not p.has_bounds() and rng.random() < 0.12:
                        # two different values that a careless fingerprint confuses (hash(-1) == hash(-2), hash(k) ==
                        # hash(k + 2**61 - 1), equal reprs at low precision), each followed by a read
                        a_, b_ = [(-1, -2), (-2.0, -1.0), (0, 2 ** 61 - 1), (1, 2 ** 61), (3, 3 + 2 ** 61 - 1),
                                  (0.123456789012, 0.123456789013), (1e-9, 2e-9), (2.5, 2.5000001)][int(rng.integers(8))]
                        if rng.random() < 0.5:
                            a_, b_ = b_, a_
                        for v_ in (a_, b_):
                            p.set(v_)
                            trace.append(["set", params.index((p, role)), repr(v_), "then read"])
                            for c_ in circuits:
                                check_read(ctx, c_, trace, rng, "after a confusable value: ")
                        ctx.bucket("confusable_values_set_and_read")
                        continue
                    if step == "set":
                        v = pick_unit(rng, 0.2) if role != "phi" else pick_phase(rng)
                        if role != "phi" and rng.random() < 0.1:
                            v = float(rng.choice([5e-9, 1e-9, 3e-10, 1e-8, 1 - 5e-9]))    # tiny but not nothing: sqrt(5e-9) = 7e-5
                            ctx.bucket("tiny_nonzero_loss_or_reflectivity")
                        if p.min_bound is not None:
                            v = max(v, p.min_bound)
                        if p.max_bound is not None:
                            v = min(v, p.max_bound)
                    elif step == "set_bad":
                        if p.has_bounds():
                            v = (p.max_bound + 1.0) if p.max_bound is not None else (p.min_bound - 1.0)
                            r_form = rng.random()
                            if r_form < 0.2:
                                v = "text"
                            elif r_form < 0.3:
                                v = float("nan")            # numeric type, but inside no interval
                                ctx.bucket("nan_offered_as_value_of_bounded_parameter")
                            elif r_form < 0.5:
                                # the same out-of-bounds request as another numeric type (all are numbers.Number)
                                far = int(np.ceil(p.max_bound)) + 2 if p.max_bound is not None else int(np.floor(p.min_bound)) - 2
                                forms = [np.float32(v), np.float64(v), np.int64(far), np.int32(far), np.int16(far)]
                                if far >= 0:
                                    forms += [np.uint8(min(far, 250)), np.uint16(far)]
                                v = forms[int(rng.integers(len(forms)))]
                                ctx.bucket("out_of_bounds_value_as_numpy_type")
                        else:
                            v = pick_unit(rng)
                    else:   # a value its component cannot take
                        v = float(rng.choice([1.5, -0.2, 1 + 1e-9, -5e-9, -1e-12])) if role != "phi" else "abc"
                        if role == "phi" and not p.has_bounds() and rng.random() < 0.5:
                            v = float(rng.choice([float("nan"), float("inf"), float("-inf")]))     # no phase at all
                            ctx.bucket("non_finite_phase_offered")
                    via_dict = False
                    for kk in pdict.keys():
                        if pdict[kk] is p and rng.random() < 0.5:
                            try:
                                pdict[kk] = v
                            finally:
                                via_dict = True
                                ctx.bucket("parameterdict_set")
                            break
                    if not via_dict:
                        p.set(v)
                    updated_since_read = True
                    trace.append([step, role, v, via_dict])
                elif step in ("bound", "bound_bad"):
                    p, role = params[int(rng.integers(len(params)))]
                    v = p.get()
                    if isnum(v):
                        which = str(rng.choice(["min_bound", "max_bound"]))
                        if step == "bound":
                            nv = (v - float(rng.random())) if which == "min_bound" else (v + float(rng.random()))
                            if rng.random() < 0.15:
                                nv = None
                        else:
                            nv = (v + 0.5) if which == "min_bound" else (v - 0.5)
                            r_b = rng.random()
                            if r_b < 0.2:
                                nv = "x"
                            elif r_b < 0.35:
                                nv = float("nan")           # not a bound at all: no value lies on either side of it
                                ctx.bucket("nan_offered_as_bound")
                        setattr(p, which, nv)
                        trace.append([step, which, nv])
                elif step == "rewrite":
                    # an in-place rewrite keeps the transformation (C09); the circuit must keep following its parameters
                    tgt = circuits[int(rng.integers(len(circuits)))]
                    rw = str(rng.choice(["compress_mode_swaps", "remove_non_adjacent_bs", "unpack_groups"]))
                    if rng.random() < 0.5 and Builder.numbered(tgt) >= 3:
                        a = int(rng.integers(Builder.numbered(tgt) - 1))
                        tgt.mode_swaps({a: a + 1, a + 1: a})          # something for the rewrites to work on
                        tgt.mode_swaps({a: a + 1, a + 1: a})
                    getattr(tgt, rw)()
                    ctx.bucket("rewritten_in_place")
                    updated_since_read = True
                    trace.append(["rewrite", rw, circuits.index(tgt)])
                elif step == "copy":
                    src = circuits[int(rng.integers(len(circuits)))]
                    circuits.append(src.copy())
                    trace.append(["copy", circuits.index(src)])
                elif step == "freeze":
                    src = circuits[int(rng.integers(len(circuits)))]
                    try:
                        frozen.append(src.copy(freeze_parameters=True))
                        trace.append(["freeze", circuits.index(src)])
                    except Exception:  # noqa: BLE001
                        raise
                elif step == "pdict":
                    if len(pdict) and rng.random() < 0.3:
                        kk = list(pdict.keys())[int(rng.integers(len(pdict)))]
                        gone = pdict[kk]
                        pdict.remove(kk)
                        ctx.bucket("parameterdict_remove")
                        if kk in list(pdict.keys()) or any(pdict[k2] is gone for k2 in pdict.keys()):
                            ctx.violation("ParameterDict.remove left the key / the Parameter in the dictionary",
                                          case={"history": trace}, mechanism="parameterdict_view",
                                          monitor="driver: ParameterDict")
                        trace.append(["pdict_remove", kk])      # the Parameter itself stays live wherever it was placed
                        continue
                    if len(pdict) and rng.random() < 0.5:
                        kk = list(pdict.keys())[int(rng.integers(len(pdict)))]
                        pdict[kk] = P(0.3)           # must be rejected (cannot overwrite)
                    else:
                        pdict["new%d" % len(trace)] = 0.5    # must be rejected (new key needs a Parameter)
                    trace.append(["pdict_bad"])
                elif step == "read":
                    # the dictionary is a view of the same Parameter objects: values and bounds as they are now
                    keys = list(pdict.keys())
                    ctx.count("parameterdict_view_checks")
                    want_items = [(k2, pdict[k2].get()) for k2 in keys]
                    want_bounds = {k2: (pdict[k2].min_bound if pdict[k2].min_bound is not None else -np.inf,
                                        pdict[k2].max_bound if pdict[k2].max_bound is not None else np.inf) for k2 in keys}
                    if (pdict.items() != want_items or list(pdict) != keys or pdict.params != keys or len(pdict) != len(keys)
                            or pdict.get_bounds() != want_bounds
                            or pdict.has_bounds() != any(pdict[k2].has_bounds() for k2 in keys)):
                        ctx.violation(f"ParameterDict view disagrees with its Parameters: items {pdict.items()} vs {want_items}, "
                                      f"bounds {pdict.get_bounds()} vs {want_bounds}", case={"history": trace},
                                      mechanism="parameterdict_view", monitor="driver: ParameterDict")
                    for cc in circuits:
                        sh = circmon.shadow_of(cc)
                        invalid = []
                        if sh is not None:
                            for kind, _w, pl in sh.ops:
                                v = circmon.val(pl[0]) if pl and kind in ("bs", "loss") else None
                                if kind in ("bs", "loss") and (not circmon._is_real_number(v) or not 0 <= v <= 1):
                                    invalid.append(kind)
                        if invalid:
                            ctx.bucket("invalid_component_value_on_read")
                            if "bs" in invalid: ctx.bucket("invalid_reflectivity_on_read")
                            if "loss" in invalid: ctx.bucket("invalid_loss_on_read")
                        check_read(ctx, cc, trace, rng)
                        check_params(ctx, cc, trace)
                        if updated_since_read and sh is not None and any(id(q) in in_group for q in sh.params()):
                            ctx.bucket("read_after_update_in_group")
                    for fc in frozen:
                        if updated_since_read:
                            ctx.bucket("frozen_read_after_update")
                        check_read(ctx, fc, trace, rng, "frozen copy ")
                        check_params(ctx, fc, trace)
                    if updated_since_read:
                        n_reads_after_update += 1
                    updated_since_read = False
                    trace.append(["read"])
            except Exception as e:  # noqa: BLE001 - rejections are outcomes; monitors judge atomicity
                nm = type(e).__name__
                trace.append([step, "raised", nm])
                if step in ("set_bad", "set_invalid", "set"):
                    ctx.bucket("rejected_set")
                if step in ("bound_bad", "bound"):
                    ctx.bucket("rejected_bound")
                n_rejected += 1
            drain_into(ctx, {"history": trace})
        ctx.case(tuple(t[0] for t in trace), n_rejected >= 1 and n_reads_after_update >= 1, sample={"history": trace})
    merge_stats(ctx)
