"""C14 - Reck mapping reproduces any unitary; noise enters only through the error model.

Deciding monitors: post-condition wrapper on ``Reck.map`` (unitary reproduced,
component kinds and adjacency, heralds, programmed phases in [0, 2pi), seed
reproducibility, sub-unitarity under a noisy error model) and on the ``value``
method of the Constant / Gaussian / TopHat distributions (every draw within the
declared bounds)."""
from __future__ import annotations

import functools
import math

import numpy as np

from .. import circmon
from ..gen import equivalent_variant, haar, pick_seed
from .common import drain_into, merge_stats, setup

PROPERTY = "C14"
RULE = ("seeded structured unitaries of size 2-10 (Haar, identity, -identity, permutations, phased permutations, "
        "block-diagonal, permuted block-diagonal, near-permutations with mixing 1e-6..1e-17, real orthogonal, DFT, "
        "heralded circuits) x error models (default; Constant/Gaussian bounded, one-sided, unbounded/TopHat incl. width 0) "
        "x seeds; distinct = (matrix family, size, error-model shape); non-trivial = every case (full post-condition)")
MANDATORY = ["error_model_reconfigured_after_use", "family:haar", "family:identity", "family:permutation", "family:phased_permutation", "family:block",
             "family:near_permutation", "family:dft", "family:orthogonal", "heralded_circuit", "theta_pi_branch",
             "theta_zero_branch", "noisy_error_model", "seed_reproducibility", "phase_near_2pi", "seed_zero_noisy", "reck_object_reused"]
DECIDING = ["mon.reck_postconditions", "mon.dist_value_checks"]
BUDGET = {"quick": 20, "thorough": 300}
ASSUMPTIONS = ["default error model: |U_mapped - U| <= 1e-8 x n entry-wise", "declared bounds of Gaussian = [min_value, "
               "max_value] (infinite when not given), TopHat = [min_value, max_value], Constant = the value"]


def install(lw):
    itf = lw.interferometers
    Reck = itf.Reck
    if getattr(Reck, "_lwverif", False):
        return
    from lightworks.interferometers import decomposition as dec
    from lightworks.interferometers import dists
    orig_bsm = dec.bs_matrix

    @functools.wraps(orig_bsm)
    def bs_matrix(mode1, mode2, theta, phi, n_modes):
        if theta == np.pi:
            circmon.STATS["reck_theta_pi"] += 1
        if theta == 0:
            circmon.STATS["reck_theta_zero"] += 1
        return orig_bsm(mode1, mode2, theta, phi, n_modes)

    dec.bs_matrix = bs_matrix

    def wrap_value(cls, lo, hi):
        orig = cls.value

        @functools.wraps(orig)
        def value(self):
            v = orig(self)
            circmon.STATS["dist_value_checks"] += 1
            a, b = lo(self), hi(self)
            if not (a <= v <= b):
                circmon.report("C14", f"{self} drew {v!r}, outside its declared bounds [{a}, {b}]",
                               monitor=cls.__name__ + ".value post-condition", mechanism="draw_out_of_bounds:" + cls.__name__)
            return v
        cls.value = value

    wrap_value(dists.Gaussian, lambda s: s._min_value, lambda s: s._max_value)
    wrap_value(dists.TopHat, lambda s: s._min_value, lambda s: s._max_value)
    wrap_value(dists.Constant, lambda s: s._value, lambda s: s._value)

    orig_map = Reck.map
    busy = [False]

    @functools.wraps(orig_map)
    def map_(self, circuit, seed=None):
        res = orig_map(self, circuit, seed)
        if busy[0]:
            return res
        try:
            problems = check_map(self, circuit, seed, res, orig_map, busy)
        except Exception as e:  # noqa: BLE001
            circmon.STATS["reck_monitor_error:" + type(e).__name__] += 1
            return res
        circmon.STATS["reck_postconditions"] += 1
        for p in problems:
            circmon.report("C14", p, monitor="Reck.map post-condition", mechanism="reck_" + p.split(":")[0])
        return res

    Reck.map = map_
    Reck._lwverif = True


def is_default(em):
    from lightworks.interferometers.dists import Constant
    return (isinstance(em.bs_reflectivity, Constant) and em.bs_reflectivity.value() == 0.5
            and isinstance(em.loss, Constant) and em.loss.value() == 0
            and isinstance(em.phase_offset, Constant) and em.phase_offset.value() == 0)


def flat_spec(spec):
    for s in spec:
        if type(s).__name__ == "Group":
            yield from flat_spec(s.circuit_spec)
        else:
            yield s


def check_map(reck, circuit, seed, res, orig_map, busy):
    problems = []
    n = circuit.n_modes
    u0 = circuit.U
    spec = list(flat_spec(res._get_circuit_spec()))
    for s in spec:
        nm = type(s).__name__
        if nm == "BeamSplitter":
            if abs(s.mode_1 - s.mode_2) != 1:
                problems.append(f"structure: beam splitter on non-adjacent modes {s.mode_1},{s.mode_2}")
                break
        elif nm == "PhaseShifter":
            phi = s.phi
            if not (0 <= phi < 2 * math.pi):
                problems.append(f"phase: programmed phase {phi!r} outside [0, 2*pi)")
                break
        elif nm == "Loss":
            if is_default(reck.error_model):
                problems.append("structure: loss element in a mapping with the default error model")
        elif nm != "Barrier":
            problems.append(f"structure: component {nm} in the mapped circuit")
            break
    if res.heralds != circuit.heralds and (
            sorted(res.heralds["input"].items()) != sorted(circuit.heralds["input"].items())
            or sorted(res.heralds["output"].items()) != sorted(circuit.heralds["output"].items())):
        problems.append(f"heralds: {res.heralds} differ from the original {circuit.heralds}")
    if res.n_modes != n:
        problems.append(f"size: mapped circuit has {res.n_modes} modes, original {n}")
        return problems
    u1 = res.U
    if is_default(reck.error_model):
        d = float(np.max(np.abs(u1 - u0)))
        if d > 1e-8 * n:
            problems.append(f"unitary: mapped unitary differs from the original by {d:.3g} (n={n})")
    else:
        sv = np.linalg.svd(u1, compute_uv=False)
        if sv.max() > 1 + 1e-9:
            problems.append(f"subunitary: largest singular value of the mapped circuit is {sv.max():.12f}")
        dev = float(np.max(np.abs(res.U_full.conj().T @ res.U_full - np.eye(res.U_full.shape[0]))))
        if dev > 1e-9:
            problems.append(f"subunitary: U_full of the mapped circuit is not unitary ({dev:.3g})")
    if seed is not None:
        busy[0] = True
        try:
            res2 = orig_map(reck, circuit, seed)
        finally:
            busy[0] = False
        circmon.STATS["reck_seed_reruns"] += 1
        if circmon.spec_digest(res2._get_circuit_spec()) != circmon.spec_digest(res._get_circuit_spec()):
            problems.append("seed: the same seed gave a different mapped circuit")
    return problems


FAMILIES = ["haar", "identity", "permutation", "phased_permutation", "block", "near_permutation", "dft", "orthogonal",
            "permuted_block", "minus_identity", "phases_just_below_whole_turn"]


def make_unitary(rng, fam, n):
    if fam == "haar":
        return haar(rng, n)
    if fam == "identity":
        return np.eye(n, dtype=complex)
    if fam == "minus_identity":
        return -np.eye(n, dtype=complex)
    if fam == "permutation":
        return np.eye(n, dtype=complex)[rng.permutation(n)]
    if fam == "phased_permutation":
        ph = np.exp(1j * rng.choice([0, math.pi, math.pi / 2, -1e-12, 2 * math.pi - 1e-13, rng.uniform(0, 6.3)], size=n))
        return np.diag(ph) @ np.eye(n, dtype=complex)[rng.permutation(n)]
    if fam in ("block", "permuted_block"):
        u = np.zeros((n, n), dtype=complex)
        i = 0
        while i < n:
            k = int(rng.integers(1, min(3, n - i) + 1))
            u[i:i + k, i:i + k] = haar(rng, k)
            i += k
        if fam == "permuted_block":
            p = np.eye(n)[rng.permutation(n)]
            u = p @ u @ np.eye(n)[rng.permutation(n)]
        return u
    if fam == "near_permutation":
        eps = float(10.0 ** -rng.integers(6, 18))
        h = rng.normal(size=(n, n)) + 1j * rng.normal(size=(n, n))
        h = (h + h.conj().T) / 2
        w, v = np.linalg.eigh(h)
        small = v @ np.diag(np.exp(1j * eps * w)) @ v.conj().T
        return small @ np.eye(n, dtype=complex)[rng.permutation(n)]
    if fam == "dft":
        w = np.exp(2j * math.pi / n)
        return np.array([[w ** (i * j) for j in range(n)] for i in range(n)]) / math.sqrt(n)
    if fam == "phases_just_below_whole_turn":
        # programmed phases a little below 2 pi (2e-9 ... 1e-4 below): diagonal phases -delta, alone or wrapped round a mesh
        deltas = rng.choice([1e-4, 3e-5, 1e-5, 1e-6, 1e-7, 2e-9, 0.0], size=n)
        d1 = np.diag(np.exp(-1j * deltas))
        kind = rng.random()
        if kind < 0.4:
            return d1.astype(complex)
        if kind < 0.7:
            return d1 @ np.eye(n, dtype=complex)[rng.permutation(n)]
        d2 = np.diag(np.exp(-1j * rng.choice([1e-4, 3e-5, 1e-6, 0.0], size=n)))
        return d1 @ haar(rng, n) @ d2
    if fam == "orthogonal":
        q, r = np.linalg.qr(rng.normal(size=(n, n)))
        return (q * np.sign(np.diag(r))).astype(complex)
    raise KeyError(fam)


def make_error_model(lw, rng, allow_loss=True):
    itf = lw.interferometers
    d = itf.dists
    em = itf.ErrorModel()
    shape = []
    r = rng.random()
    if r < 0.5:
        em.bs_reflectivity = d.Gaussian(0.5, float(rng.choice([0.0, 0.02, 0.2])), 0.0, 1.0)
        shape.append("gauss_bounded")
    elif r < 0.75:
        lo = float(rng.uniform(0.3, 0.5)); hi = lo + float(rng.choice([0.0, 0.2]))
        em.bs_reflectivity = d.TopHat(lo, hi)
        shape.append("tophat" + ("0" if hi == lo else ""))
    else:
        em.bs_reflectivity = d.Constant(float(rng.uniform(0.3, 0.7)))
        shape.append("const")
    # (every lossy component adds a mode to U_full: on a wide mesh - thousands of components - compiling the mapped circuit
    #  would take minutes and run the shard into the watchdog, so loss is left out there)
    r = rng.random() if allow_loss else 1.0
    if r < 0.4:
        em.loss = d.Gaussian(0.05, 0.05, 0.0, None if rng.random() < 0.0 else 1.0)
        shape.append("loss_gauss")
    elif r < 0.6:
        em.loss = d.TopHat(0.0, float(rng.choice([0.0, 0.1])))
        shape.append("loss_tophat")
    elif r < 0.7:
        em.loss = d.Constant(float(rng.choice([0.0, 0.02])))
        shape.append("loss_const")
    r = rng.random()
    if r < 0.4:
        em.phase_offset = d.Gaussian(0.0, float(rng.choice([0.01, 1.0])))          # unbounded
        shape.append("phase_gauss_unbounded")
    elif r < 0.6:
        em.phase_offset = d.Gaussian(0.0, 0.3, min_value=-0.1) if rng.random() < 0.5 else d.Gaussian(0.0, 0.3, max_value=0.1)
        shape.append("phase_gauss_onesided")
    elif r < 0.8:
        em.phase_offset = d.TopHat(-0.2, 0.2)
        shape.append("phase_tophat")
    if rng.random() < 0.2:
        # two quantities given EQUAL BUT DISTINCT distribution objects (or one shared object): each quantity still has to
        # follow the seed
        kind = str(rng.choice(["tophat", "gauss", "gauss_bounded"]))

        def mk():
            if kind == "tophat":
                return d.TopHat(0.0, 0.1)
            if kind == "gauss":
                return d.Gaussian(0.05, 0.02, 0.0)        # (one-sided: a loss must not come out negative)
            return d.Gaussian(0.05, 0.05, 0.0, 1.0)
        first = mk()
        second = first if rng.random() < 0.25 else mk()
        if allow_loss and rng.random() < 0.6:
            em.loss, em.phase_offset = first, second
            shape.append("loss_and_phase_" + ("share_one_" if second is first else "hold_equal_") + kind)
        else:
            em.bs_reflectivity, em.phase_offset = d.TopHat(0.45, 0.55), d.TopHat(0.45, 0.55)
            if second is first:
                em.phase_offset = em.bs_reflectivity
            shape.append("reflectivity_and_phase_" + ("share_one_" if second is first else "hold_equal_") + "tophat")
    return em, tuple(shape)


def run(ctx):
    lw = setup(ctx, warm=False)
    install(lw)
    rng = ctx.rng
    itf = lw.interferometers
    shared_reck = itf.Reck()
    i = 0
    while not ctx.out_of_time():
        fam = FAMILIES[i % len(FAMILIES)] if i < 3 * len(FAMILIES) else str(rng.choice(FAMILIES))
        i += 1
        n = int(rng.integers(2, 11))
        r_size = rng.random()
        if r_size < 0.04:
            n = 1
        elif r_size < 0.1:
            n = int(rng.integers(11, 14))
        elif r_size < 0.115:
            n = int(rng.choice([16, 17, 20, 24]))
            ctx.bucket("wide_interferometer")
        elif r_size < 0.123:
            n = int(rng.choice([52, 56, 64]))            # more than 50 modes (three-digit column counts in the mesh)
            ctx.bucket("very_wide_interferometer")
        u = make_unitary(rng, fam, n)
        circ = lw.Unitary(u)
        heralded = False
        if rng.random() < 0.25 and n >= 2:
            k = int(rng.integers(1, min(3, n - 1) + 1))
            modes = rng.choice(n, size=k, replace=False).tolist()
            outs = rng.permutation(modes).tolist() if rng.random() < 0.4 else modes
            for m, o in zip(modes, outs):
                circ.herald(int(rng.integers(0, 2)), int(m), int(o))
            heralded = True
            ctx.bucket("heralded_circuit")
        circ, variant = equivalent_variant(circ, rng)
        noisy = bool(rng.random() < 0.4)
        seed = pick_seed(rng) if rng.random() < 0.8 else None
        if noisy:
            em, shape = make_error_model(lw, rng, allow_loss=n <= 13)
            ctx.bucket("noisy_error_model")
        else:
            em, shape = None, ("default",)
        case = {"family": fam, "n": n, "error_model": list(shape), "seed": seed, "heralded": heralded}
        ctx.bucket("family:" + ("block" if "block" in fam else fam))
        t_pi, t_0 = circmon.STATS["reck_theta_pi"], circmon.STATS["reck_theta_zero"]
        try:
            if not noisy and rng.random() < 0.5:
                reck = shared_reck           # a long-lived default Reck object reused across circuits
                ctx.bucket("reck_object_reused")
            else:
                reck = itf.Reck(em) if em is not None else itf.Reck()
            refused = 0
            if rng.random() < 0.2:
                # requests the object is expected to refuse come first: they may leave no residue in the Reck object or
                # in its error model (judged by the post-condition on the map that follows and by the fresh twin below)
                for _ in range(int(rng.integers(1, 3))):
                    what = str(rng.choice(["map_lossy", "map_non_circuit", "map_bad_seed", "error_model_type", "dist_type",
                                           "dist_bad_args", "map_after_bad_dist_value"]))
                    try:
                        if what == "map_lossy":
                            lc = lw.Circuit(max(2, n)); lc.bs(0); lc.loss(0, 0.3)
                            reck.map(lc, seed=seed)
                        elif what == "map_non_circuit":
                            reck.map(rng.choice([None, "circuit", 3]) if rng.random() < 0.6 else u, seed=seed)
                        elif what == "map_bad_seed":
                            reck.map(circ, seed=rng.choice(["seed", -1, 2.5, 2 ** 40]) if rng.random() < 0.8 else [1])
                        elif what == "error_model_type":
                            reck.error_model = rng.choice([None, 0.1, "model"]) if rng.random() < 0.7 else itf.dists.Constant(0.1)
                        elif what == "dist_type":
                            setattr(reck.error_model, str(rng.choice(["bs_reflectivity", "loss", "phase_offset"])),
                                    rng.choice([0.3, "gaussian", None]))
                        elif what == "dist_bad_args":
                            r_ = rng.random()
                            if r_ < 0.3:
                                itf.dists.Gaussian(0.5, -0.1)
                            elif r_ < 0.6:
                                itf.dists.TopHat(0.6, 0.4)
                            elif r_ < 0.8:
                                itf.dists.Gaussian(0.5, 0.1, 0.9, 0.1)
                            else:
                                itf.dists.Constant("0.5")
                        else:
                            # a reflectivity distribution whose values are not reflectivities: the map fails half-way
                            tmp = itf.ErrorModel(); tmp.bs_reflectivity = itf.dists.Constant(1.7)
                            old_em = reck.error_model
                            reck.error_model = tmp
                            try:
                                reck.map(circ, seed=seed)
                            finally:
                                reck.error_model = old_em
                        ctx.bucket("odd_request_accepted:" + what)
                    except Exception as e_:  # noqa: BLE001
                        refused += 1
                        ctx.bucket("request_refused:" + what)
                        case.setdefault("refused_before", []).append(what + ":" + type(e_).__name__)
                if refused:
                    ctx.bucket("map_after_refused_request")
            res = reck.map(circ, seed=seed)
            if refused and noisy and seed is not None:
                em_f = itf.ErrorModel()
                for a3 in ("bs_reflectivity", "loss", "phase_offset"):
                    setattr(em_f, a3, getattr(reck.error_model, a3))
                r_f = itf.Reck(em_f).map(circ, seed=seed)
                if circmon.spec_digest(r_f._get_circuit_spec()) != circmon.spec_digest(res._get_circuit_spec()):
                    ctx.violation("after refused requests, a seeded map differs from the one a freshly built Reck object with "
                                  "the same three distributions gives", case=case,
                                  mechanism="reck_seed_after_refused_request:fresh_twin",
                                  monitor="driver: fresh twin after refused requests")
            if noisy and rng.random() < 0.3:
                # the same noisy Reck object mapping a second circuit, then the first one again with the same seed
                other = lw.Unitary(make_unitary(rng, "haar", int(rng.integers(2, 6))))
                reck.map(other, seed=pick_seed(rng))
                ctx.bucket("reck_object_reused")
                if seed is not None:
                    res3 = reck.map(circ, seed=seed)
                    if circmon.spec_digest(res3._get_circuit_spec()) != circmon.spec_digest(res._get_circuit_spec()):
                        ctx.violation("the same Reck object, circuit and seed gave a different mapped circuit after it "
                                      "had mapped another circuit in between", case=case, mechanism="reck_seed_history",
                                      monitor="driver: seed reproducibility across reuse")
            if noisy and seed is not None and rng.random() < 0.4:
                # the error model of a Reck object that has already mapped is reconfigured in place (one attribute is
                # replaced by a new random distribution); same seed -> same circuit, and the same circuit as a freshly built,
                # identically configured model gives
                d_ = itf.dists
                attr = str(rng.choice(["phase_offset", "phase_offset", "bs_reflectivity", "loss"]))
                if attr == "loss" and n > 13:
                    attr = "phase_offset"          # (no loss on wide meshes, see make_error_model)
                mk = {"phase_offset": lambda: d_.Gaussian(0.0, 0.4) if rng.random() < 0.5 else d_.TopHat(-0.3, 0.3),
                      "bs_reflectivity": lambda: d_.Gaussian(0.5, 0.05, 0.0, 1.0) if rng.random() < 0.5 else d_.TopHat(0.4, 0.6),
                      "loss": lambda: d_.Gaussian(0.05, 0.02, 0.0, 1.0) if rng.random() < 0.5 else d_.TopHat(0.0, 0.1)}[attr]
                setattr(reck.error_model, attr, mk())
                ctx.bucket("error_model_reconfigured_after_use")
                case["reconfigured_after_use"] = attr
                r_a = reck.map(circ, seed=seed)
                r_b = reck.map(circ, seed=seed)
                if circmon.spec_digest(r_a._get_circuit_spec()) != circmon.spec_digest(r_b._get_circuit_spec()):
                    ctx.violation(f"after the used error model's {attr} was replaced, the same seed gives different mapped "
                                  f"circuits", case=case, mechanism="reck_seed_after_reconfiguration",
                                  monitor="driver: seed reproducibility across reconfiguration")
                em_f = itf.ErrorModel()
                for a3 in ("bs_reflectivity", "loss", "phase_offset"):
                    setattr(em_f, a3, getattr(reck.error_model, a3))
                r_f = itf.Reck(em_f).map(circ, seed=seed)
                if circmon.spec_digest(r_f._get_circuit_spec()) != circmon.spec_digest(r_a._get_circuit_spec()):
                    ctx.violation(f"after the used error model's {attr} was replaced, a seeded map differs from the one a "
                                  f"freshly built model with the same three distributions gives", case=case,
                                  mechanism="reck_seed_after_reconfiguration:fresh_twin",
                                  monitor="driver: seed reproducibility across reconfiguration")
            if seed is not None:
                ctx.bucket("seed_reproducibility")
                if seed == 0 and noisy:
                    ctx.bucket("seed_zero_noisy")
            phases = [s.phi for s in flat_spec(res._get_circuit_spec()) if type(s).__name__ == "PhaseShifter"]
            if any(p > 2 * math.pi - 1e-9 for p in phases):
                ctx.bucket("phase_near_2pi")
        except Exception as e:  # noqa: BLE001
            ctx.violation(f"Reck.map raised {type(e).__name__}: {e}", case=case,
                          mechanism="reck_raised:" + type(e).__name__, monitor="driver")
        if circmon.STATS["reck_theta_pi"] > t_pi: ctx.bucket("theta_pi_branch")
        if circmon.STATS["reck_theta_zero"] > t_0: ctx.bucket("theta_zero_branch")
        ctx.case((fam, n, shape, heralded), True, sample=case)
        drain_into(ctx, case)
    merge_stats(ctx)
