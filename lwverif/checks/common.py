"""Shared helpers for the per-property drivers."""
from __future__ import annotations

from .. import circmon, core


def setup(ctx=None, warm=True):
    """Install the monitors, then import lightworks from the tree under test."""
    import time  # noqa: PLC0415
    core.use_repo()
    circmon.install_on_import()
    import lightworks as lw  # noqa: PLC0415
    if not circmon._installed:  # import hook missed (layout changed): install late
        circmon.install()
    if warm:
        try:   # trigger numba compilation of thewalrus' permanent now (about 5 s per process, not cached)
            import numpy as np  # noqa: PLC0415
            from thewalrus import perm  # noqa: PLC0415
            perm(np.ones((5, 5), dtype=complex))
        except Exception:  # noqa: BLE001
            pass
    if ctx is not None:
        ctx.t0 = time.monotonic()      # the budget covers the workload, not import / JIT warm-up
    return lw


def too_big(c, max_total_modes=12, max_herald_photons=4) -> bool:
    """Circuits whose full output space would take the emulator (and the reference) minutes are skipped and counted."""
    try:
        return c.U_full.shape[0] > max_total_modes or sum(c.heralds["input"].values()) > max_herald_photons
    except Exception:  # noqa: BLE001
        return True


def drain_into(ctx, case, own_kinds=None):
    """Move monitor observations for this property into ctx; count the others."""
    for ob in circmon.drain():
        if ob["prop"] == ctx.prop:
            ctx.violation(ob["what"], case=case, witness=ob["witness"],
                          mechanism=ob["mechanism"], monitor=ob["monitor"])
        else:
            ctx.count("other_property_observations:" + ob["prop"])


def merge_stats(ctx):
    for k, v in circmon.STATS.items():
        ctx.counters["mon." + k] += v
    circmon.STATS.clear()
