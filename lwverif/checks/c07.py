"""C07 - sampling draws from the exact detected, heralded, post-selected distribution.

Safety (per returned sample): post-condition monitors on the five sampling
methods + per-event invariants on ``Detector._get_output``. Statistical: the
recorded sample counts, the accepted fraction and the detector's conditional
histograms are tested against the exact push-forward of the implementation's
own probability distribution through the documented detector model with exact
binomial tail tests (per-test alpha 1e-15; total false-alarm budget per run
far below 1e-9 for < 1e6 tests)."""
from __future__ import annotations

import random as pyrandom

import numpy as np

from .. import circmon, detref, emumon
from ..emumon import insert_heralds
from .c03 import random_state
from .c05 import make_circuit, make_post_selection
from ..gen import herald_in_place, pick_seed
from .common import drain_into, merge_stats, setup, too_big

PROPERTY = "C07"
RULE = ("seeded random configurations: circuit/heralds/input (as C05) x detector (efficiency in {1,.9,.5,0}, p_dark in "
        "{0,1e-3,.2}, counting on/off) x post-selection (none/rules/predicate) x min_detection 0..n+1 x seed x N; "
        "distinct = (efficiency class, p_dark class, counting, herald photons?, post-selection kind, min_detection "
        "vs photon number, method); non-trivial = imperfect detector or heralds or post-selection or min_detection>0")
MANDATORY = ["eff_lt1_dark_threshold", "min_detection_boundary", "herald_fails_after_detection",
             "n_outputs_sampler", "n_outputs_quick", "single_sample", "dark_refusal_checked", "seed_reproducibility",
             "herald_declared_in_place"]
DECIDING = ["binomial_tests", "mon.sampling_postconditions", "mon.detector_events", "detector_conditional_tests"]
BUDGET = {"quick": 35, "thorough": 540}
ALPHA = 1e-15
ASSUMPTIONS = ["the implementation's own probability_distribution is the base distribution (C04/C06 decide it); cases "
               "whose base distribution is not normalised to 1e-6 are skipped and counted",
               "exact two-sided binomial tests, per-test alpha 1e-15",
               "Sampler.sample_N_outputs is only exercised with efficiency 1 and p_dark 0, as documented"]


def test_counts(ctx, counts: dict, n: int, probs: dict, what: str, case, mech: str):
    """Exact binomial test of each class count against its exact probability."""
    keys = sorted(probs, key=lambda q: -probs[q])[:12]
    keys += [q for q in counts if q not in probs]
    for q in keys:
        x = counts.get(q, 0)
        p = min(1.0, max(0.0, probs.get(q, 0.0)))
        pv = detref.binom_two_sided(x, n, p)
        ctx.count("binomial_tests")
        if pv < ALPHA:
            ctx.violation(f"{what}: state {list(q)} observed {x}/{n}, exact probability {p:.6g} "
                          f"(two-sided binomial tail {pv:.3g})", case=case, mechanism=mech,
                          monitor="exact binomial conformance")
            return False
    return True


_DEFAULT_SAMPLERS: list = []


def run_config(ctx, lw, rng, cfg=None):
    emu, State = lw.emulator, lw.State
    cfg = cfg or {}
    try:
        c, log = make_circuit(lw, rng)
    except Exception as e:  # noqa: BLE001
        ctx.count("construction_raised:" + type(e).__name__)
        circmon.drain()
        return
    circmon.drain()
    k = c.input_modes
    h = c.heralds
    hph = sum(h["input"].values())
    u = c.U_full
    if u.shape[0] - c.n_modes > 3 or k == 0 or k > 5 or too_big(c, 11, 3):
        ctx.count("skipped_size")
        return
    nph = int(rng.integers(1, 4))
    if nph + hph > 4:
        nph = max(1, 4 - hph)
    occ = random_state(rng, k, nph)
    eta = cfg.get("eta", float(rng.choice([1, 1, 0.9, 0.5, 0.0])))
    pd = cfg.get("pd", float(rng.choice([0, 0, 1e-3, 0.2])))
    pc = cfg.get("pc", bool(rng.random() < 0.6))
    ps_obj, ps_kind, pred = make_post_selection(lw, rng, k)
    min_det = cfg.get("min_det", int(rng.choice([0, 0, nph, nph + 1, max(0, nph - 1)])))
    if cfg.get("min_det") == "n":
        min_det = nph
    seed = pick_seed(rng)
    n = int(rng.choice([200, 2000, 20000])) if ctx.tier == "quick" else int(rng.choice([2000, 20000, 200000]))
    method = cfg.get("method", str(rng.choice(["n_inputs", "n_inputs", "n_outputs", "quick", "single"])))
    case = {"circuit": log, "input": occ, "detector": {"efficiency": eta, "p_dark": pd, "photon_counting": pc},
            "post_selection": ps_kind, "min_detection": min_det, "seed": seed, "N": n, "method": method,
            "heralds": {"in": h["input"], "out": h["output"]}}
    if eta < 1 and pd > 0 and not pc: ctx.bucket("eff_lt1_dark_threshold")
    if min_det == nph and nph > 0: ctx.bucket("min_detection_boundary")
    if hph and eta < 1: ctx.bucket("herald_fails_after_detection")
    key = (eta, pd, pc, bool(hph), ps_kind, np.sign(min_det - nph), method)
    nontrivial = eta < 1 or pd > 0 or not pc or bool(h["input"]) or ps_kind != "none" or min_det > 0
    raised_threshold = bool(cfg.get("raised_threshold") or (not cfg and method == "n_inputs" and rng.random() < 0.15))
    if raised_threshold:
        # a threshold that drops a few output states of this very distribution, worth 0.05 % - 0.7 % in total
        try:
            vals_ = sorted(emu.Sampler(c, State(occ)).probability_distribution.values())
        except Exception:  # noqa: BLE001
            vals_ = []
        cum_, thr_ = 0.0, None
        for v_ in vals_:
            if cum_ + v_ > 0.007:
                break
            cum_ += v_
            thr_ = v_
        if thr_ is not None and cum_ > 5e-4:
            lw.settings.sampler_probability_threshold = thr_ * (1 + 1e-9)
            case["library_threshold"] = lw.settings.sampler_probability_threshold
        else:
            raised_threshold = False
    try:
        if cfg.get("default_detector") or (not cfg and rng.random() < 0.08):
            # no detector given: a perfect, private one - whatever was done to the default detector of an earlier sampler
            for old_ in _DEFAULT_SAMPLERS[-2:]:
                old_.detector.efficiency = 0.5
                old_.detector.p_dark = 0.2
                old_.detector.photon_counting = False
            eta, pd, pc = 1.0, 0.0, True
            case["detector"] = "omitted (earlier default detectors were edited in place)"
            smp = emu.Sampler(c, State(occ))
            _DEFAULT_SAMPLERS.append(smp)
            del _DEFAULT_SAMPLERS[:-3]
            ctx.bucket("default_detector_after_another_was_edited")
        else:
            det = emu.Detector(efficiency=eta, p_dark=pd, photon_counting=pc)
            smp = emu.Sampler(c, State(occ), detector=det)
        base = {tuple(s): p for s, p in smp.probability_distribution.items()}
    except Exception as e:  # noqa: BLE001
        ctx.count("setup_raised:" + type(e).__name__)
        lw.settings.sampler_probability_threshold = 1e-9
        return
    if abs(sum(base.values()) - 1) > 1e-6:
        if raised_threshold and 0.992 < sum(base.values()) < 1 and method == "n_inputs":
            # the library-wide threshold was raised and the backend dropped some output states: sample_N_inputs documents
            # that it samples from the remaining ones in proportion to their probabilities
            tot_ = sum(base.values())
            base = {k_: v_ / tot_ for k_, v_ in base.items()}
            n = 200000
            case["N"] = n
            ctx.bucket("n_inputs_on_truncated_distribution")
        else:
            ctx.count("skipped_unnormalised")
            lw.settings.sampler_probability_threshold = 1e-9
            return
    threshold_multi_herald = bool(h["output"]) and max(h["output"].values()) > 1 and not pc
    if rng.random() < 0.15:
        # requests the sampler has to refuse come first, on the very object that is then sampled from
        n_ref = 0
        for _ in range(int(rng.integers(1, 4))):
            what = int(rng.integers(9))
            try:
                if what == 0:
                    smp.sample_N_inputs(-3)
                elif what == 1:
                    smp.sample_N_inputs(10, post_select=5)
                elif what == 2:
                    smp.sample_N_outputs(10, min_detection=1.5)
                elif what == 3:
                    smp.detector = 3
                elif what == 4:
                    smp.input_state = State([1] * (k + 1))
                    _ = smp.probability_distribution
                elif what == 5:
                    smp.sample_N_inputs(10, seed="seed")
                elif what == 6:
                    smp.detector.efficiency = 1.5
                elif what == 7:
                    smp.sample_N_outputs(10, post_select=lambda s: False)       # nothing can be accepted
                else:
                    smp.sample_N_inputs(2.5)
            except Exception:  # noqa: BLE001
                n_ref += 1
            if what == 4:
                try:
                    smp.input_state = State(occ)
                except Exception:  # noqa: BLE001
                    pass
        if n_ref:
            ctx.bucket("sampled_after_refused_requests")
            case["refused_requests_before"] = n_ref
    emumon.DET_LOG = {}
    try:
        if method == "n_inputs":
            try:
                r1 = smp.sample_N_inputs(n, ps_obj, min_det, seed)
            except Exception as e:  # noqa: BLE001
                if threshold_multi_herald and type(e).__name__ == "SamplerError":
                    ctx.count("documented_refusal_threshold_multi_herald")
                    return
                raise
            ref = detref.accepted_distribution(base, h["output"], eta, pd, pc, pred, min_det)
            counts = {tuple(s): v for s, v in r1.items()}
            ok = test_counts(ctx, counts, n, ref, "sample_N_inputs", case, "n_inputs_distribution")
            tot = sum(counts.values())
            ptot = min(1.0, sum(ref.values()))
            pv = detref.binom_two_sided(tot, n, ptot)
            ctx.count("binomial_tests")
            if ok and pv < ALPHA:
                ctx.violation(f"sample_N_inputs accepted {tot}/{n}, exact accepted probability {ptot:.6g} "
                              f"(tail {pv:.3g})", case=case, mechanism="n_inputs_accepted_fraction",
                              monitor="exact binomial conformance")
            # detector alone: conditional histograms
            for (e_, d_, c_), per_in in emumon.DET_LOG.items():
                for a, outs in per_in.items():
                    na = sum(outs.values())
                    if na < 200:
                        continue
                    refd = detref.detect_state(a, e_, d_, c_)
                    ctx.count("detector_conditional_tests")
                    test_counts(ctx, outs, na, refd, f"Detector(eff={e_},p_dark={d_},counting={c_}) on {list(a)}",
                                case, "detector_conditional")
            # same seed, same result
            st = pyrandom.getstate()
            r2 = smp.sample_N_inputs(n, ps_obj, min_det, seed)
            pyrandom.setstate(st)
            ctx.bucket("seed_reproducibility")
            if dict(r1) != dict(r2):
                ctx.violation("sample_N_inputs with the same seed gave a different result", case=case,
                              mechanism="seed_not_reproducible", monitor="seed reproducibility")
        elif method == "n_outputs":
            ctx.bucket("n_outputs_sampler")
            # (dark counts are the documented exception of this method; the detector's efficiency is part of the model)
            det2 = emu.Detector(efficiency=eta, p_dark=0, photon_counting=pc)
            smp2 = emu.Sampler(c, State(occ), detector=det2)
            if eta < 1:
                ctx.bucket("n_outputs_with_inefficient_detector")
            ref = detref.accepted_distribution(base, h["output"], eta, 0.0, pc, pred, min_det)
            tot = sum(ref.values())
            try:
                r1 = smp2.sample_N_outputs(n, ps_obj, min_det, seed)
            except Exception as e:  # noqa: BLE001
                nm = type(e).__name__
                if nm == "SamplerError" and (tot < 1e-12 or threshold_multi_herald):
                    ctx.count("documented_refusal_no_outputs")
                    return
                raise
            if tot > 1e-9:
                counts = {tuple(s): v for s, v in r1.items()}
                test_counts(ctx, counts, n, {q: p / tot for q, p in ref.items()}, "sample_N_outputs", case,
                            "n_outputs_distribution")
            r2 = smp2.sample_N_outputs(n, ps_obj, min_det, seed)
            ctx.bucket("seed_reproducibility")
            if dict(r1) != dict(r2):
                ctx.violation("sample_N_outputs with the same seed gave a different result", case=case,
                              mechanism="seed_not_reproducible", monitor="seed reproducibility")
            # documented refusal with dark counts
            ctx.bucket("dark_refusal_checked")
            try:
                emu.Sampler(c, State(occ), detector=emu.Detector(p_dark=0.1)).sample_N_outputs(10)
                ctx.violation("sample_N_outputs accepted a detector with dark counts", case=case,
                              mechanism="dark_counts_accepted", monitor="documented refusal")
            except Exception as e:  # noqa: BLE001
                if type(e).__name__ != "SamplerError":
                    ctx.violation(f"sample_N_outputs with dark counts raised {type(e).__name__}", case=case,
                                  mechanism="dark_counts_wrong_error", monitor="documented refusal")
        elif method == "quick":
            ctx.bucket("n_outputs_quick")
            try:
                qs = emu.QuickSampler(c, State(occ), photon_counting=pc, post_select=ps_obj)
                ref = {tuple(s): p for s, p in qs.probability_distribution.items()}
            except Exception as e:  # noqa: BLE001
                ctx.count("quick_refused:" + type(e).__name__)
                return
            r1 = qs.sample_N_outputs(n, seed)
            test_counts(ctx, {tuple(s): v for s, v in r1.items()}, n, ref, "QuickSampler.sample_N_outputs", case,
                        "quick_n_outputs_distribution")
            r2 = qs.sample_N_outputs(n, seed)
            ctx.bucket("seed_reproducibility")
            if dict(r1) != dict(r2):
                ctx.violation("QuickSampler.sample_N_outputs with the same seed gave a different result", case=case,
                              mechanism="seed_not_reproducible", monitor="seed reproducibility")
            m = min(n, 2000)
            cnt: dict = {}
            for _ in range(m):
                s = qs.sample()
                cnt[tuple(s)] = cnt.get(tuple(s), 0) + 1
            test_counts(ctx, cnt, m, ref, "QuickSampler.sample", case, "quick_single_distribution")
        else:
            ctx.bucket("single_sample")
            m = min(n, 2000)
            cnt = {}
            for _ in range(m):
                s = smp.sample()
                cnt[tuple(s)] = cnt.get(tuple(s), 0) + 1
            if not h["output"]:
                ref = detref.accepted_distribution(base, {}, eta, pd, pc, lambda s: True, 0)
                test_counts(ctx, cnt, m, ref, "Sampler.sample", case, "single_distribution")
        if method in ("n_inputs", "n_outputs") and rng.random() < 0.3 and herald_in_place(c, rng):
            # the same sampler after a herald was declared in place: the safety post-conditions (length, heralds
            # removed, ...) and the seeded comparison with a fresh sampler must still hold
            ctx.bucket("herald_declared_in_place")
            new_in = State(random_state(rng, c.input_modes, min(nph, 2)))
            target = smp if method == "n_inputs" else smp2
            target.input_state = new_in
            fresh = emu.Sampler(c, new_in, detector=target.detector)
            meth = "sample_N_inputs" if method == "n_inputs" else "sample_N_outputs"
            try:
                r_long = dict(getattr(target, meth)(300, ps_obj if c.input_modes == k else None, 0, seed))
                r_fresh = dict(getattr(fresh, meth)(300, ps_obj if c.input_modes == k else None, 0, seed))
                if r_long != r_fresh:
                    ctx.violation(f"after a herald was declared in place, {meth} of the reused sampler differs from a "
                                  f"fresh sampler's with the same seed", case=case,
                                  mechanism="reused_after_in_place_herald:" + meth, monitor="seeded comparison")
            except Exception as e2:  # noqa: BLE001
                ctx.count("reuse_after_herald_raised:" + type(e2).__name__)
    except Exception as e:  # noqa: BLE001
        ctx.violation(f"sampling raised {type(e).__name__}: {e}", case=case,
                      mechanism="sampling_raised:" + type(e).__name__, monitor="driver")
    finally:
        emumon.DET_LOG = None
        lw.settings.sampler_probability_threshold = 1e-9
    ctx.case(key, nontrivial, sample=case)
    drain_into(ctx, case)


def run(ctx):
    lw = setup(ctx)
    emumon.install()
    rng = ctx.rng
    # directed prelude: one configuration per mandatory bucket
    for cfg in ({"eta": 0.5, "pd": 0.2, "pc": False, "method": "n_inputs"},
                {"eta": 1.0, "pd": 0.0, "pc": True, "min_det": "n", "method": "n_inputs"},
                {"eta": 0.9, "pd": 0.0, "pc": True, "method": "n_inputs"},
                {"method": "n_outputs"}, {"method": "quick"}, {"method": "single"}):
        for _ in range(3):
            run_config(ctx, lw, rng, cfg)
    while not ctx.out_of_time():
        run_config(ctx, lw, rng)
    merge_stats(ctx)
