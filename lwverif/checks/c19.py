"""C19 - any constructible circuit can be displayed, without side effects.

Deciding monitor: post-condition + exception-path wrapper on ``Display`` (every
namespace holding the function is rebound): for valid options the call must
return a serialisable drawsvg.Drawing or a (Figure, Axes) pair and leave the
circuit's fingerprint unchanged; a wrong-length label list or an unknown display
type must raise DisplayError."""
from __future__ import annotations

import functools
import sys

import numpy as np

from .. import circmon
from ..gen import Builder, equivalent_variant
from .common import drain_into, merge_stats, setup

PROPERTY = "C19"
RULE = ("seeded random circuits from the tree generator (hidden ancillas, plain and heralded groups, nesting, swaps and "
        "non-adjacent beam splitters spanning ancillas, unitary blocks split by an ancilla, loss, barriers on subsets, "
        "labelled/unlabelled parameters, empty swaps, 1-mode circuits, heralded library gates) x {svg, mpl} x "
        "display_loss x show_parameter_values x mode_labels {None, right length, wrong length} x unknown display types; "
        "distinct = (component kinds present, ancilla layout class, option tuple); non-trivial = circuit has a group, an "
        "ancilla or a parameter")
MANDATORY = ["svg", "mpl", "two_heralded_groups_and_swap_across_ancilla:svg",
             "two_heralded_groups_and_swap_across_ancilla:mpl", "reject_wrong_label_length", "reject_display_type",
             "labels_right_length", "display_loss", "show_parameter_values", "one_mode_circuit", "method_display"]
DECIDING = ["mon.display_postconditions", "mon.display_rejections_checked"]
BUDGET = {"quick": 30, "thorough": 420}
ASSUMPTIONS = ["matplotlib Agg backend; figures are closed by the monitor", "a drawing is 'produced' when the svg "
               "serialises to non-empty text / a Figure with at least one Axes is returned"]


def install(lw):
    import drawsvg
    import matplotlib.figure
    import matplotlib.pyplot as plt
    import lightworks.sdk.visualisation.display as dmod
    if getattr(dmod, "_lwverif", False):
        return
    DisplayError = lw.DisplayError
    orig = dmod.Display

    @functools.wraps(orig)
    def Display(circuit, display_loss=False, mode_labels=None, display_type="svg", show_parameter_values=False):  # noqa: N802
        numbered = circuit.n_modes - len(circuit._internal_modes)
        valid_type = display_type in ("svg", "mpl")
        valid_labels = mode_labels is None or (hasattr(mode_labels, "__len__") and len(mode_labels) == numbered)
        fp = circmon.circuit_fingerprint(circuit, with_unitary=True)
        labels_before = list(mode_labels) if isinstance(mode_labels, list) else None
        try:
            res = orig(circuit, display_loss=display_loss, mode_labels=mode_labels, display_type=display_type,
                       show_parameter_values=show_parameter_values)
            err = None
        except BaseException as e:  # noqa: BLE001
            res, err = None, e
        opts = {"display_type": display_type, "display_loss": display_loss,
                "show_parameter_values": show_parameter_values,
                "mode_labels": None if mode_labels is None else len(mode_labels), "numbered_modes": numbered}
        if circmon.circuit_fingerprint(circuit, with_unitary=True) != fp:
            circmon.report("C19", "Display changed the circuit", monitor="Display post-condition",
                           mechanism="display_changed_circuit:" + str(display_type), witness=opts)
        if labels_before is not None and list(mode_labels) != labels_before:
            circmon.report("C19", "Display changed the label list passed in", monitor="Display post-condition",
                           mechanism="display_changed_labels", witness=opts)
        if valid_type and valid_labels:
            circmon.STATS["display_postconditions"] += 1
            if err is not None:
                circmon.report("C19", f"Display raised {type(err).__name__}: {err} for a constructible circuit and valid "
                                      f"options", monitor="Display post-condition",
                               mechanism=("display_raised:circuit_without_modes" if circuit.n_modes == 0 else
                                          f"display_raised:{display_type}:{type(err).__name__}"), witness=opts)
            elif display_type == "svg":
                ok = isinstance(res, drawsvg.Drawing)
                try:
                    ok = ok and len(res.as_svg()) > 50
                except Exception:  # noqa: BLE001
                    ok = False
                if not ok:
                    circmon.report("C19", "svg back-end did not return a serialisable drawing",
                                   monitor="Display post-condition", mechanism="display_nothing:svg", witness=opts)
            else:
                ok = (isinstance(res, tuple) and len(res) == 2 and isinstance(res[0], matplotlib.figure.Figure)
                      and len(res[0].axes) >= 1)
                if not ok:
                    circmon.report("C19", "mpl back-end did not return a (Figure, Axes) pair",
                                   monitor="Display post-condition", mechanism="display_nothing:mpl", witness=opts)
        else:
            circmon.STATS["display_rejections_checked"] += 1
            what = "unknown display type" if not valid_type else "label list of the wrong length"
            if err is None:
                circmon.report("C19", f"Display accepted {what}", monitor="Display exception path",
                               mechanism="display_invalid_accepted:" + ("type" if not valid_type else "labels"),
                               witness=opts)
            elif not isinstance(err, DisplayError):
                circmon.report("C19", f"Display rejected {what} with {type(err).__name__} instead of DisplayError",
                               monitor="Display exception path",
                               mechanism=("display_raised:circuit_without_modes" if circuit.n_modes == 0 and valid_type else
                                          "display_wrong_error:" + ("type" if not valid_type else "labels")), witness=opts)
        plt.close("all")
        if err is not None:
            raise err
        return res

    for m in list(sys.modules.values()):
        if m is None or not getattr(m, "__name__", "").startswith("lightworks"):
            continue
        for attr, val in list(vars(m).items()):
            if val is orig:
                setattr(m, attr, Display)
    dmod._lwverif = True


def layout_class(c):
    internal = sorted(c._internal_modes)
    if not internal:
        return "none"
    n = c.n_modes
    pos = ("first" if 0 in internal else "") + ("last" if n - 1 in internal else "")
    mid = any(0 < i < n - 1 for i in internal)
    return f"{min(len(internal), 3)}{pos}{'mid' if mid else ''}"


def run(ctx):
    lw = setup(ctx, warm=False)
    install(lw)
    import matplotlib.pyplot as plt
    import IPython.display
    plt.show = lambda *a, **k: None
    IPython.display.display = lambda *a, **k: None
    from lightworks.sdk.circuit import circuit as cmod
    cmod.display.display = lambda *a, **k: None
    rng = ctx.rng
    first = True
    while not ctx.out_of_time():
        b = Builder(rng, lw, loss_p=float(rng.choice([0.0, 0.3])), param_p=float(rng.choice([0.0, 0.4])),
                    max_herald_photons=int(rng.choice([2, 2, 2, 3, 5, 12, 1000])))   # any photon number can be heralded
        log: list = []
        directed = False
        try:
            if first or rng.random() < 0.08:
                # directed: >= 2 heralded groups and a swap / non-adjacent BS across an ancilla
                c = lw.Circuit(6); log.append(["circuit", 6])
                c.add(lw.qubit.CNOT_Heralded() if rng.random() < 0.5 else lw.qubit.CZ(), 0); log.append(["add", "gate", 0])
                sub = b.leaf(3, 2, [], heralds=1)
                c.add(sub, 3); log.append(["add", "leaf+herald", 3])
                c.mode_swaps({0: 5, 5: 2, 2: 0}); log.append(["swaps", {0: 5, 5: 2, 2: 0}])
                c.bs(1, 4); log.append(["bs", 1, 4])
                c.add(lw.Unitary(lw.random_unitary(4, seed=int(rng.integers(1000)))), 1); log.append(["unitary", 1, 4])
                c.barrier([0, 3]); c.loss(2, 0.3)
                p = lw.Parameter(0.4, label="theta" if rng.random() < 0.5 else None)
                c.ps(3, p)
                directed = True
                first = False
            elif rng.random() < 0.01:
                c = lw.Circuit(0); log.append(["circuit", 0])       # constructible: a circuit without any mode
                if rng.random() < 0.5:
                    c.barrier(); c.mode_swaps({})
                ctx.bucket("circuit_without_modes")
            elif rng.random() < 0.1:
                c = lw.Circuit(1); log.append(["circuit", 1])
                c.ps(0, 0.3); c.loss(0, 0.2); c.barrier(); c.mode_swaps({})
                ctx.bucket("one_mode_circuit")
            else:
                n_disp = int(rng.integers(1, 8)) if rng.random() < 0.9 else int(rng.integers(8, 14))
                c = b.tree(n_disp, int(rng.choice([0, 1, 1, 2])), log, max_children=3, steps=(1, 8),
                           gate_p=0.25, direct_heralds_p=0.25)
                for p in b.params:
                    if rng.random() < 0.5:
                        p.label = "p" + str(int(rng.integers(100)))
        except Exception as e:  # noqa: BLE001
            ctx.count("construction_raised:" + type(e).__name__)
            circmon.drain()
            continue
        circmon.drain()
        try:
            c, variant = equivalent_variant(c, rng)
            log.append(["presented_as", variant])
            ctx.bucket("circuit_presented_as:" + variant)
        except Exception as e:  # noqa: BLE001
            ctx.count("variant_raised:" + type(e).__name__)
            continue
        circmon.drain()
        numbered = c.n_modes - len(c._internal_modes)
        if rng.random() < 0.04 and numbered > 0:
            # a phase that is not a finite number is accepted by ps() and Parameter: if the circuit can be built with it,
            # it can be asked to be drawn
            from fractions import Fraction
            odd = [float("nan"), float("inf"), float("-inf"), 1.7e308, -1.7e308, Fraction(1, 2), Fraction(-7, 3),
                   np.float16(60000), 10 ** 400]
            v = odd[int(rng.integers(len(odd)))]     # ... or is too large to have a nearest multiple of pi/4, or is a Fraction
            try:
                r = rng.random()
                c.ps(int(rng.integers(numbered)), v if r < 0.5 else lw.Parameter(v, label="phi" if r < 0.75 else None))
                log.append(["ps", "non-finite phase", repr(v), "plain" if r < 0.5 else "Parameter"])
                ctx.bucket("non_finite_phase_accepted")
            except Exception as e:  # noqa: BLE001
                ctx.count("non_finite_phase_rejected:" + type(e).__name__)
            circmon.drain()
        n_opt = 3 if ctx.tier == "quick" else 8
        for _ in range(n_opt):
            dt = str(rng.choice(["svg", "svg", "mpl"]))
            dl = bool(rng.random() < 0.5)
            sp = bool(rng.random() < 0.5)
            r = rng.random()
            if r < 0.5:
                labels = None
            elif r < 0.8:
                labels = [str(rng.choice(["a", "mode%d" % i, "a-very-long-label-for-this-mode", 3, 2.5])) for i in range(numbered)]
                ctx.bucket("labels_right_length")
            else:
                wrong = numbered + int(rng.choice([-1, 1, 2])) if numbered > 0 else 1
                if rng.random() < 0.3:
                    wrong = c.n_modes if c.n_modes != numbered else numbered + 1   # the total mode count is also wrong
                labels = ["x"] * max(0, wrong)
                ctx.bucket("reject_wrong_label_length")
            if rng.random() < 0.1:
                dt = str(rng.choice(["png", "SVG", "", "matplotlib"]))
                ctx.bucket("reject_display_type")
            ctx.bucket(dt) if dt in ("svg", "mpl") else None
            if dl: ctx.bucket("display_loss")
            if sp: ctx.bucket("show_parameter_values")
            if directed and dt in ("svg", "mpl"):
                ctx.bucket("two_heralded_groups_and_swap_across_ancilla:" + dt)
            case = {"circuit": log, "options": {"display_type": dt, "display_loss": dl, "show_parameter_values": sp,
                                                "mode_labels": labels}}
            try:
                if rng.random() < 0.15 and dt in ("svg", "mpl"):
                    ctx.bucket("method_display")
                    c.display(show_parameter_values=sp, display_loss=dl, mode_labels=labels, display_type=dt)
                else:
                    lw.Display(c, display_loss=dl, mode_labels=labels, display_type=dt, show_parameter_values=sp)
            except Exception as e:  # noqa: BLE001 - judged by the monitor
                ctx.count("display_raised:" + type(e).__name__)
            kinds = tuple(sorted({type(s).__name__ for s, _ in _flat(c._get_circuit_spec())}))
            ctx.case((kinds, layout_class(c), dt, dl, sp, None if labels is None else len(labels) == numbered),
                     bool(c._internal_modes or b.params or "Group" in kinds), sample=case)
            drain_into(ctx, case)
    merge_stats(ctx)


def _flat(spec, g=False):
    for s in spec:
        yield s, g
        if type(s).__name__ == "Group":
            yield from _flat(s.circuit_spec, True)
