"""C01 - a circuit compiles to the ordered product of its components.

Workload: random construction programs through the public API (all component
kinds, both conventions, reversed / non-adjacent / repeated modes, boundary
values, loss interleaved everywhere). Deciding monitor: post-condition on
``Circuit.U`` / ``Circuit.U_full`` against the wire-labelled shadow advanced by
the API-boundary wrappers (circmon)."""
from __future__ import annotations

import numpy as np

from .. import boson, circmon
from ..gen import Builder, haar
from .common import drain_into, merge_stats, setup

PROPERTY = "C01"
RULE = ("seeded random construction programs (1-40 steps, 1-8 modes) over bs(Rx/H)/ps/loss/"
        "barrier/mode_swaps/Unitary blocks with boundary values; distinct = sequence of "
        "(kind, relative mode pattern, boundary class of value); non-trivial = >=2 component kinds "
        "and at least one of {loss before a later component, reversed-order H beam splitter, "
        "boundary value}")
MANDATORY = ["bs_after_loss", "ps_after_loss", "swaps_after_loss", "unitary_after_loss",
             "loss_after_loss", "barrier_after_loss", "reversed_H_bs", "nonadjacent_bs", "large_mode_count", "group_shared_then_unpacked_and_extended", "malformed_component_rejected",
             "wide_circuit_addressed_with_small_numpy_integers"]
DECIDING = ["u_full_postconditions", "mon.cmp"]
BUDGET = {"quick": 25, "thorough": 420}
ASSUMPTIONS = ["own Glynn permanent and wire model are the reference (written from the documented "
               "component matrices)", "numerical tolerance 1e-9 on O(1) matrix entries"]


def bclass(v):
    if not isinstance(v, (int, float)):
        return "p"
    if v in (0, 1, 0.5):
        return str(v)
    if abs(v) < 1e-6 or abs(1 - v) < 1e-6:
        return "tiny"
    return "x"


def key_of(log):
    out = []
    for st in log:
        k = st[0]
        if k == "bs":
            a, b = st[1], st[2] if st[2] is not None else st[1] + 1
            out.append((k, b - a, st[4], bclass(st[3]), bclass(st[5])))
        elif k == "ps":
            out.append((k, bclass(st[3])))
        elif k == "loss":
            out.append((k, bclass(st[2])))
        elif k == "swaps":
            out.append((k, len(st[1])))
        elif k == "unitary":
            out.append((k, st[2]))
        else:
            out.append((k,))
    return tuple(out)


_ = None


def classify(log, ctx):
    kinds = set()
    seen_loss = False
    nontrivial_feature = False
    for st in log:
        k = st[0]
        if k == "circuit":
            continue
        kinds.add(k)
        lossy_step = (k == "loss") or (k == "bs" and st[5]) or (k == "ps" and st[3])
        if seen_loss:
            ctx.bucket(k + "_after_loss")
            nontrivial_feature = True
        if k == "bs":
            b = st[2] if st[2] is not None else st[1] + 1
            if st[4] == "H" and b < st[1]:
                ctx.bucket("reversed_H_bs")
                nontrivial_feature = True
            if abs(b - st[1]) > 1:
                ctx.bucket("nonadjacent_bs")
            if bclass(st[3]) != "x":
                nontrivial_feature = True
                ctx.bucket("boundary_value")
        if lossy_step:
            seen_loss = True
    return len(kinds) >= 2 and nontrivial_feature


def check_circuit(ctx, c, log, rng):
    """Post-conditions on U / U_full for one finished (or partial) program."""
    status, problems = circmon.compare(c, rng)
    if status != "compared":
        ctx.count("skipped_" + status)
        return
    sh = circmon.shadow_of(c)
    ctx.count("u_full_postconditions")
    for kind, detail in problems:
        mech = {"unitarity": "U_full_not_unitary", "shape": "loss_mode_count",
                "amp": "product_mismatch", "frame": "frame", "compile": "compile_error",
                "invalid_not_raised": "invalid_value"}[kind]
        ctx.violation(f"{kind}: {detail}", case={"program": log}, mechanism=mech,
                      monitor="U_full post-condition", witness={"events": sh.events})
    if any(k in ("compile", "invalid_not_raised", "frame") for k, _ in problems):
        return
    # direct matrix comparison (no heralds / private ancillas in C01 programs)
    u_full = c.U_full
    u = c.U
    n = c.n_modes
    t, idx = sh.matrix()
    order = [idx[w] for w in sh.numbered] + [idx[w] for w in sh.extra]
    if sorted(order) == list(range(t.shape[0])) and t.shape == u_full.shape:
        tt = t[np.ix_(order, order)]
        ctx.count("matrix_entrywise_comparisons")
        d = float(np.max(np.abs(u_full[:, :n] - tt[:, :n]))) if n else 0.0
        if d > 1e-9:
            ctx.violation(f"real-input columns of U_full differ from the ordered product by {d:.3g}",
                          case={"program": log}, mechanism="product_mismatch",
                          monitor="U_full vs ordered product", witness={"events": sh.events})
        du = float(np.max(np.abs(u - tt[:n, :n]))) if n else 0.0
        if du > 1e-9:
            ctx.violation(f"U differs from the ordered product (loss as sqrt(1-loss)) by {du:.3g}",
                          case={"program": log}, mechanism="product_mismatch_U",
                          monitor="U vs ordered product", witness={"events": sh.events})
    if u.shape != (n, n) or not np.array_equal(u, u_full[:n, :n]):
        ctx.violation("U is not the leading block of U_full", case={"program": log},
                      mechanism="U_not_leading_block", monitor="U leading block")
    prob = circmon.scribble_probe(c)
    if prob:
        ctx.violation(prob, case={"program": log}, mechanism="returned_array_aliases_state", monitor="scribble probe")
    if u_full.shape[0] - n != sh.n_loss:
        ctx.violation(f"{u_full.shape[0] - n} extra modes for {sh.n_loss} loss elements",
                      case={"program": log}, mechanism="loss_mode_count", monitor="loss modes")


def directed(ctx, lw, rng):
    """Directed prelude: one program per mandatory bucket (seed varies values)."""
    c = lw.Circuit(4)
    log = [["circuit", 4]]
    l0 = float(rng.uniform(0.05, 0.95))
    c.loss(1, l0); log.append(["loss", 1, l0])
    r = float(rng.random())
    c.bs(3, 0, r, 0, "H"); log.append(["bs", 3, 0, r, "H", 0])
    phi = float(rng.uniform(-7, 7))
    c.ps(1, phi); log.append(["ps", 1, phi, 0])
    c.mode_swaps({0: 2, 2: 1, 1: 0}); log.append(["swaps", {0: 2, 2: 1, 1: 0}])
    seed = int(rng.integers(1 << 30))
    c.add(lw.Unitary(haar(np.random.default_rng(seed), 3)), 1); log.append(["unitary", 1, 3, seed])
    c.barrier([0, 2]); log.append(["barrier", [0, 2]])
    l1 = float(rng.uniform(0.05, 0.95))
    c.loss(0, l1); log.append(["loss", 0, l1])
    c.bs(0, 1, 1.0, float(rng.uniform(0.1, 0.9)), "Rx"); log.append(["bs", 0, 1, 1.0, "Rx", "lossy"])
    nt = classify(log, ctx)
    ctx.case(("directed", key_of(log)), nt, sample={"program": log})
    check_circuit(ctx, c, log, rng)
    drain_into(ctx, {"program": log})


def wide_small_int_modes(ctx, lw, rng):
    """Wide circuits addressed with fixed-width numpy integers at the limit of their type (np.uint8(255), np.int8(127),
    np.uint16 / np.int16 for contrast): a mode number is a number, whatever carries it."""
    n = int(rng.choice([129, 130, 257, 258, 300]))
    c = lw.Circuit(n)
    log = [["circuit", n]]
    cands = [(np.int8, 127), (np.int8, 126), (np.uint8, 127), (np.int16, 127), (np.uint16, 127)]
    if n > 256:
        cands += [(np.uint8, 255), (np.uint8, 254), (np.uint16, 255), (np.int16, 255), (np.int64, 255)]
    for _ in range(int(rng.integers(2, 7))):
        ty, m = cands[int(rng.integers(len(cands)))]
        kind = str(rng.choice(["bs_default", "bs_default", "bs_explicit", "ps", "loss", "bs_lossy"]))
        try:
            if kind == "bs_default":
                r = float(rng.uniform(0.1, 0.9)); conv = str(rng.choice(["Rx", "H"]))
                c.bs(ty(m), reflectivity=r, convention=conv); log.append(["bs", f"{ty.__name__}({m})", None, r, conv, 0])
            elif kind == "bs_explicit":
                r = float(rng.uniform(0.1, 0.9))
                c.bs(ty(m), int(m) + 1, r); log.append(["bs", f"{ty.__name__}({m})", m + 1, r, "Rx", 0])
            elif kind == "bs_lossy":
                r = float(rng.uniform(0.1, 0.9)); l_ = float(rng.uniform(0.1, 0.5))
                c.bs(ty(m), None, r, l_); log.append(["bs", f"{ty.__name__}({m})", None, r, "Rx", l_])
            elif kind == "ps":
                phi = float(rng.uniform(-3, 3))
                c.ps(ty(m), phi); log.append(["ps", f"{ty.__name__}({m})", phi, 0])
            else:
                l_ = float(rng.uniform(0.1, 0.9))
                c.loss(ty(m), l_); log.append(["loss", f"{ty.__name__}({m})", l_])
        except Exception as e:  # noqa: BLE001
            ctx.violation(f"a legal component on mode {ty.__name__}({m}) of a {n}-mode circuit raised {type(e).__name__}: {e}",
                          case={"program": log + [[kind, f"{ty.__name__}({m})"]]},
                          mechanism="legal_call_raised:" + type(e).__name__, monitor="driver")
    ctx.bucket("wide_circuit_addressed_with_small_numpy_integers")
    ctx.case(("wide_small_int", n, len(log)), True, sample={"program": log})
    check_circuit(ctx, c, log, rng)
    drain_into(ctx, {"program": log})


def run(ctx):
    lw = setup(ctx, warm=False)
    rng = ctx.rng
    directed(ctx, lw, rng)
    wide_small_int_modes(ctx, lw, rng)
    max_steps = 40 if ctx.tier == "thorough" else 25
    while not ctx.out_of_time():
        if rng.random() < 0.004:
            wide_small_int_modes(ctx, lw, rng)
        n = int(rng.integers(1, 9)) if rng.random() < 0.9 else int(rng.integers(9, 15))
        if rng.random() < 0.03:
            n = int(rng.choice([16, 17, 20, 24, 31, 32, 33, 40, 64, 65]))     # wide circuits: size-dependent code paths
            ctx.bucket("very_large_mode_count")
        if n >= 9:
            ctx.bucket("large_mode_count")
        b = Builder(rng, lw, loss_p=float(rng.choice([0.0, 0.15, 0.5])))
        c = lw.Circuit(n)
        log = [["circuit", n]]
        steps = int(rng.integers(1, max_steps + 1))
        if rng.random() < 0.002 and n <= 8:
            steps = int(rng.choice([300, 1030, 1100, 1500, 2100]))       # very deep programs: count-dependent code paths
            ctx.bucket("very_long_program")
            b.loss_p = 0.0                                               # (loss elements stay rare: each adds a mode)
            b.allow = {"bs", "ps", "barrier", "swaps", "unitary"} if rng.random() < 0.5 else \
                {"bs", "ps", "barrier", "swaps", "unitary", "loss"}
            b.long_program = True
            if steps > 1024:
                ctx.bucket("program_longer_than_1024_components")
        check_at = set(rng.choice(steps, size=min(steps, 2), replace=False).tolist()) | {steps - 1}
        aborted = False
        for i in range(steps):
            if rng.random() < 0.08:
                # an out-of-range / malformed component: it is either rejected (nothing happens) or, if some
                # version of the library accepts it, the post-conditions below still have to hold for the result
                try:
                    hk = int(rng.integers(5))
                    if hk == 0 and n >= 2:
                        a_, b_ = sorted(rng.choice(n, size=2, replace=False).tolist())
                        bad = {a_: b_, b_: b_} if rng.random() < 0.5 else {a_: b_, b_: a_, (b_ + 1) % n: a_}
                        c.mode_swaps(bad)
                    elif hk == 1 and n >= 2:
                        c.bs(0, 1, float(rng.choice([1.0000001, -1e-9, 2.0])))
                    elif hk == 2:
                        c.loss(int(rng.integers(n)), float(rng.choice([1.0000001, -1e-9])))
                    elif hk == 3 and n >= 2:
                        m_ = haar(np.random.default_rng(int(rng.integers(1 << 30))), 2)
                        m_[0, 0] *= 1.001
                        c.add(lw.Unitary(m_), 0)
                    elif n >= 2:
                        c.bs(1, 1)
                    ctx.count("malformed_component_accepted")
                    log.append(["malformed_component_accepted", hk])
                except Exception:  # noqa: BLE001
                    ctx.bucket("malformed_component_rejected")
                circmon.drain()
            try:
                b.primitive(c, log, n)
            except Exception as e:  # noqa: BLE001 - every generated call is legal
                ctx.violation(f"legal construction call raised {type(e).__name__}: {e}",
                              case={"program": log, "failing_call": b.last},
                              mechanism="legal_call_raised:" + type(e).__name__, monitor="program builder")
                aborted = True
                break
            if i in check_at:
                check_circuit(ctx, c, log, rng)
        if aborted:
            ctx.case(key_of(log), False)
            drain_into(ctx, {"program": log})
            continue
        if rng.random() < 0.25:
            # the same components held as ONE group in a second circuit that is shared through copy() / +, then the
            # sharer is unpacked and extended: every circuit must still report the product of what was added to *it*
            try:
                g = lw.Circuit(n)
                g.add(c, 0, group=True)
                other = g.copy() if rng.random() < 0.5 else (g + lw.Circuit(n))
                holder = g if rng.random() < 0.5 else other
                watcher = other if holder is g else g
                holder.unpack_groups()
                elog: list = []
                for _ in range(int(rng.integers(1, 4))):
                    b.primitive(holder, elog, n)
                ctx.bucket("group_shared_then_unpacked_and_extended")
                for who, cc in (("untouched sharer", watcher), ("extended circuit", holder), ("original", c)):
                    status, problems = circmon.compare(cc, rng)
                    if status == "compared":
                        ctx.count("u_full_postconditions")
                        for kind, detail in problems:
                            ctx.violation(f"{who} after group sharing/unpack/extend: {kind}: {detail}",
                                          case={"program": log, "extension": elog}, mechanism="aliasing_" + kind,
                                          monitor="U_full post-condition")
            except Exception as e:  # noqa: BLE001
                ctx.count("aliasing_epilogue_raised:" + type(e).__name__)
        if rng.random() < 0.25:
            # the program is shared through copy() / +, the derived circuit gets two mergeable swaps and is rewritten in
            # place: the original must still report the product of exactly what was added to *it*
            try:
                if n >= 2 and rng.random() < 0.6:
                    a_ = int(rng.integers(n - 1))
                    sw = {a_: a_ + 1, a_ + 1: a_}
                    c.mode_swaps(dict(sw)); log.append(["swaps", sw])
                    c.mode_swaps(dict(sw)); log.append(["swaps", sw])
                derived = c.copy() if rng.random() < 0.5 else ((c + lw.Circuit(n)) if rng.random() < 0.5 else (lw.Circuit(n) + c))
                rws = [str(x) for x in rng.choice(["compress_mode_swaps", "remove_non_adjacent_bs", "unpack_groups"],
                                                  size=int(rng.integers(1, 3)))]
                for rw in rws:
                    getattr(derived, rw)()
                ctx.bucket("derived_circuit_rewritten")
                for who, cc in (("original", c), ("rewritten derived circuit", derived)):
                    status, problems = circmon.compare(cc, rng)
                    if status == "compared":
                        ctx.count("u_full_postconditions")
                        for kind, detail in problems:
                            ctx.violation(f"{who} after {rws} on a copy / sum: {kind}: {detail}",
                                          case={"program": log, "rewrites_on_derived": rws}, mechanism="aliasing_" + kind,
                                          monitor="U_full post-condition")
            except Exception as e:  # noqa: BLE001
                ctx.count("aliasing_epilogue_raised:" + type(e).__name__)
        nt = classify(log, ctx)
        ctx.case(key_of(log), nt, sample={"program": log})
        drain_into(ctx, {"program": log})
    merge_stats(ctx)
