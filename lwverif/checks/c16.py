"""C16 - process tomography and gate fidelity agree with the library's own references.

The experiment callback answers every requested (circuit, input) pair with exact
frequencies from the own Fock reference; post-conditions on
LIProcessTomography.process, MLEProcessTomography.process and
GateFidelity.process compare with ``choi_from_unitary(V)`` where V is computed
by the monitor from the base circuit's own dual-rail amplitudes."""
from __future__ import annotations

import numpy as np

from .. import circmon, qubitref as qr, tomoref
from ..gen import as_callback, equivalent_variant, haar
from .c15 import random_1q
from .common import drain_into, merge_stats, setup

PROPERTY = "C16"
RULE = ("seeded base circuits: one-qubit random Rz.Ry.Rz products and named gates (S, T, SX, H, X, Y, Rx, Ry), two-qubit "
        "products of random single-qubit unitaries with CZ/CNOT in both orientations and SWAP, optionally with a herald "
        "declared directly on the base circuit; methods LI, MLE, gate fidelity with targets V, Haar-random, V^T, V*; "
        "distinct = (n, gate sequence, method, target kind); non-trivial = V neither real nor symmetric, or a target "
        "different from V")
MANDATORY = ["li_complex_nonsymmetric", "mle_complex_nonsymmetric", "gate_fidelity_other_target",
             "gate_fidelity_same_target", "two_qubit_li", "two_qubit_entangling", "direct_herald",
             "tomography_object_reused_after_edit", "unnormalised_counts", "experiment_without_qubit_post_selection",
             "data_outside_the_qubit_subspace_refused", "gate_fidelity_target_close_to_V"]
DECIDING = ["li_postconditions", "mle_postconditions", "gate_fidelity_postconditions", "callback_pairs_answered",
            "earlier_objects_rechecked"]
BUDGET = {"quick": 40, "thorough": 600}
ASSUMPTIONS = ["V = normalised dual-rail amplitude matrix of the base circuit (own permanent)", "LI choi and fidelity to "
               "1e-8 / 1e-6; MLE: smallest eigenvalue of the Hermitian part >= -1e-6, a partial trace within 1e-3 of the "
               "identity, fidelity >= 0.99; gate fidelity to 1e-8"]


def make_base(ctx, lw, rng, n):
    q = lw.qubit
    log: list = []
    direct = n == 1 and rng.random() < 0.25 or n == 2 and rng.random() < 0.15
    crossed = (not direct) and rng.random() < 0.1
    if crossed:
        # 2-3 heralds declared on numbered modes before / after the rails, routed onto each other's modes
        h = int(rng.integers(2, 4))
        off = int(rng.integers(0, h + 1))
        base = lw.Circuit(2 * n + h)
        hmodes = list(range(off)) + list(range(off + 2 * n, 2 * n + h))
    elif direct:
        pos = int(rng.choice([0, 2 * n]))
        base = lw.Circuit(2 * n + 1)
        off = 1 if pos == 0 else 0
    else:
        base = lw.Circuit(2 * n)
        off = 0
    ent = False
    for _ in range(int(rng.integers(1, 5))):
        if n == 2 and rng.random() < 0.45:
            g = str(rng.choice(["CZ", "CNOT", "CNOT0", "SWAP"]))
            if g == "SWAP":
                base.add(q.SWAP((0, 1), (2, 3)), off)
            else:
                base.add({"CZ": q.CZ, "CNOT": q.CNOT, "CNOT0": lambda: q.CNOT(0)}[g](), off)
                ent = True
            log.append([g])
        else:
            qi = int(rng.integers(n))
            gate, desc = random_1q(lw, rng)
            base.add(gate, off + 2 * qi)
            log.append(desc + [qi])
    if direct:
        base.herald(0, pos)
        log.append(["herald", 0, pos])
        ctx.bucket("direct_herald")
    if crossed:
        perm = [int(x) for x in rng.permutation(hmodes)]
        if perm == hmodes:
            perm = perm[1:] + perm[:1]
        base.mode_swaps(dict(zip(hmodes, perm)))
        photons = [int(x) for x in rng.permutation([1, 0, 0][:len(hmodes)])]
        for k in rng.permutation(len(hmodes)):
            base.herald(photons[int(k)], hmodes[int(k)], perm[int(k)])
            log.append(["herald", photons[int(k)], hmodes[int(k)], perm[int(k)]])
        ctx.bucket("direct_heralds_routed_onto_each_other")
    return base, log, ent, off


def run(ctx):
    lw = setup(ctx, warm=False)
    rng = ctx.rng
    State = lw.State
    tomo = lw.tomography

    scale_mode = [1.0]

    xargs = {"cur": None, "seen": []}
    unpost = [False]

    def experiment(circuits, inputs, *extra):
        xargs["seen"].append(list(extra))
        out = []
        for c, s in zip(circuits, inputs):
            ctx.count("callback_pairs_answered")
            if unpost[0]:
                probs = tomoref.all_output_probs(c, list(s), State)
                if unpost[0] == "coincidences":
                    # ... or only the n-fold coincidences among them (no mode holding two photons)
                    probs = {k_: v_ for k_, v_ in probs.items() if max(k_.s, default=0) <= 1}
            else:
                probs = tomoref.dual_rail_probs(c, list(s), State)
            if scale_mode[0] != 1.0:
                # counts need not be normalised: any common positive factor per result must give the same answer
                f = scale_mode[0] * float(rng.choice([1.0, 3.0, 0.25]))
                probs = {k_: v_ * f for k_, v_ in probs.items()}
            out.append(probs)
        if rng.random() < 0.2:
            # the lists handed over are the experiment's to reorder or empty once it has answered in the order received
            for lst_ in (circuits, inputs):
                if isinstance(lst_, list) and len(lst_) > 1:
                    lst_.append(lst_.pop(0))
                    if rng.random() < 0.3:
                        lst_.clear()
            ctx.bucket("experiment_reorders_the_lists_it_was_given")
        return out

    fl = {"armed": False, "how": None}

    def callback():
        cb, form = as_callback(experiment, rng)
        ctx.bucket("callback_is_" + form)
        if rng.random() < 0.12:
            # an experiment that fails the first time it is run (raises, or returns unusable data): process() fails, and
            # is then called again on the same object with the experiment working
            fl["armed"], fl["how"] = True, str(rng.choice(["raises", "too_few_results", "not_dual_rail", "empty_results"]))

            def flaky(circuits, *a, **k):
                if not fl["armed"]:
                    return cb(circuits, *a, **k)
                if fl["how"] == "raises":
                    raise RuntimeError("laboratory on fire")
                good = cb(circuits, *a, **k)
                if fl["how"] == "too_few_results":
                    return good[:-1]
                if fl["how"] == "empty_results":
                    return [{} for _ in good]
                bad = [dict(g) for g in good]
                st0 = next(iter(bad[0]))
                bad[0] = {State([1] * len(st0)): 1.0}
                return bad
            return flaky
        return cb

    def new_obj(cls, n_, base_, cb_):
        """Builds the tomography object with the optional experiment_args omitted, None, empty or holding 1-3 values."""
        r_ = rng.random()
        if r_ < 0.5:
            xargs["cur"] = None
            return cls(n_, base_, cb_)
        xargs["cur"] = [None, [], [3], ["shots", {"a": 1}], [None], [0, 0.5, "x"]][int(rng.integers(6))]
        ctx.bucket("experiment_args_given")
        if rng.random() < 0.5:
            return cls(n_, base_, cb_, xargs["cur"])
        return cls(n_, base_, cb_, experiment_args=xargs["cur"])

    def attempt(fn):
        """Runs fn(); if the experiment is armed to fail, the failing first run comes first."""
        if fl["armed"]:
            try:
                fn()
                ctx.count("first_run_with_unusable_data_did_not_fail:" + str(fl["how"]))
            except Exception as e_:  # noqa: BLE001
                ctx.bucket("process_called_again_after_failed_run")
                ctx.count("failed_first_run:" + str(fl["how"]) + ":" + type(e_).__name__)
            fl["armed"] = False
        xargs["seen"].clear()
        res_ = fn()
        want_ = list(xargs["cur"] or [])
        if any(x != want_ for x in xargs["seen"]) or not xargs["seen"]:
            ctx.violation(f"the experiment was called with extra arguments {xargs['seen'][:2]}, experiment_args was "
                          f"{xargs['cur']!r}", mechanism="experiment_args_not_passed_on", monitor="experiment callback")
        ctx.count("experiment_args_checked")
        return res_

    earlier: list = []
    while not ctx.out_of_time():
        n = 1 if rng.random() < (0.8 if ctx.tier == "quick" else 0.7) else 2
        method = str(rng.choice(["LI", "MLE", "GF", "GF"] if n == 1 else ["LI", "LI", "GF", "MLE"]))
        if n == 2 and method == "MLE" and ctx.time_left() < 12:
            method = "GF"
        try:
            base, log, ent, base_off = make_base(ctx, lw, rng, n)
        except Exception as e:  # noqa: BLE001
            ctx.count("construction_raised:" + type(e).__name__)
            circmon.drain()
            continue
        circmon.drain()
        try:
            if base_off == 0 or True:
                newb, variant = equivalent_variant(base, rng)
                if variant != "unpacked_copy" or not base._internal_modes:
                    base = newb           # (an unpacked copy renumbers the ancilla modes: offsets would no longer hold)
                else:
                    variant = "itself"
        except Exception as e:  # noqa: BLE001
            ctx.count("variant_raised:" + type(e).__name__)
            continue
        ctx.bucket("base_presented_as:" + variant)
        circmon.drain()
        m = tomoref.dual_rail_matrix(base, n)
        v, c, dev = tomoref.normalised_unitary(m)
        if v is None or dev > 1e-8:
            ctx.count("skipped_not_unitary_on_subspace")
            continue
        complex_nonsym = bool(np.max(np.abs(v - v.T)) > 0.05 and np.max(np.abs((v / v.flat[np.argmax(np.abs(v))]).imag)) > 0.05)
        d = 2 ** n
        scale_mode[0] = float(rng.choice([1.0, 1.0, 1e6, 1e-3, 12345.0, 2e-9, 1e-13, 1e12]))
        if scale_mode[0] != 1.0:
            ctx.bucket("unnormalised_counts")
            if scale_mode[0] < 1e-7:
                ctx.bucket("tiny_total_weight")
        # an experiment that reports the noiseless frequencies of ALL outputs with one photon per qubit on average - it does
        # not post-select on the qubit subspace. For a base that never leaves the subspace the data is the same; for a
        # post-selected CZ / CNOT it holds outcomes like |1,1,0,0>, which the library may refuse - or use correctly - but
        # must not turn into another Choi matrix / fidelity without saying so.
        unpost[0] = bool(method in ("LI", "GF") and rng.random() < (0.5 if (n == 2 and ent) else 0.12))
        if unpost[0] and rng.random() < 0.5:
            unpost[0] = "coincidences"
        case = {"n": n, "base": log, "method": method, "base_presented_as": variant, "count_scale": scale_mode[0],
                "experiment_post_selects_on_qubit_subspace": not unpost[0], "experiment_reports": str(unpost[0] or "qubit subspace")}
        if unpost[0]:
            ctx.bucket("experiment_without_qubit_post_selection")
        if n == 2 and ent:
            ctx.bucket("two_qubit_entangling")
        fp = circmon.circuit_fingerprint(base, with_unitary=True)
        objs = {}
        reuse_round = 0
        pp = None
        try:
          while True:
            choi_ref = tomo.choi_from_unitary(v)
            if method == "LI":
                if "pt" not in objs:
                    objs["pt"] = new_obj(tomo.LIProcessTomography, n, base, callback())
                pt = objs["pt"]
                choi = attempt(pt.process)
                ctx.count("li_postconditions")
                if complex_nonsym: ctx.bucket("li_complex_nonsymmetric")
                if n == 2: ctx.bucket("two_qubit_li")
                dd = float(np.max(np.abs(choi - choi_ref)))
                fid = pt.fidelity(choi_ref)
                if dd > 1e-8:
                    ctx.violation(f"LI Choi matrix differs from choi_from_unitary(V) by {dd:.3g} (reported fidelity "
                                  f"{fid:.6f})", case=case, mechanism="li_choi" + (":nonsymmetric" if complex_nonsym else ""),
                                  monitor="LIProcessTomography.process post-condition")
                elif abs(fid - 1) > 1e-6:
                    ctx.violation(f"LI fidelity against choi_from_unitary(V) is {fid:.9f}", case=case,
                                  mechanism="li_fidelity", monitor="LIProcessTomography.process post-condition")
                else:
                    # a fidelity worth the name is 0 against the Choi matrix of a unitary W with tr(W^dagger V) = 0
                    # (W = V Z_1; whatever convention - F or sqrt(F) - is used for intermediate values)
                    z1 = np.kron(np.diag([1.0, -1.0]), np.eye(d // 2))
                    ctx.count("fidelity_against_orthogonal_process")
                    f0 = pt.fidelity(tomo.choi_from_unitary(v @ z1))
                    if not abs(f0) <= 1e-3:
                        ctx.violation(f"LI fidelity against the Choi matrix of an orthogonal unitary (V Z_1) is {f0:.6f}",
                                      case=case, mechanism="li_fidelity_orthogonal_process_not_zero",
                                      monitor="LIProcessTomography.fidelity post-condition")
            elif method == "MLE":
                if "pt" not in objs:
                    objs["pt"] = new_obj(tomo.MLEProcessTomography, n, base, callback())
                pt = objs["pt"]
                choi = attempt(pt.process)
                ctx.count("mle_postconditions")
                if complex_nonsym: ctx.bucket("mle_complex_nonsymmetric")
                herm = (choi + choi.conj().T) / 2
                ev = float(np.min(np.linalg.eigvalsh(herm)))
                t4 = choi.reshape(d, d, d, d)
                pt1 = np.trace(t4, axis1=1, axis2=3)      # trace over second factor
                pt2 = np.trace(t4, axis1=0, axis2=2)      # trace over first factor
                tp = min(float(np.max(np.abs(pt1 - np.eye(d)))), float(np.max(np.abs(pt2 - np.eye(d)))))
                fid = pt.fidelity(choi_ref)
                if ev < -1e-6:
                    ctx.violation(f"MLE Choi matrix is not positive (smallest eigenvalue {ev:.3g})", case=case,
                                  mechanism="mle_positive", monitor="MLEProcessTomography.process post-condition")
                if tp > 1e-3:
                    ctx.violation(f"MLE Choi matrix is not trace preserving (partial trace off by {tp:.3g})", case=case,
                                  mechanism="mle_trace_preserving", monitor="MLEProcessTomography.process post-condition")
                # the same figure computed here: choi_ref is rank one, so F = tr(choi_ref choi) / d^2; the weaker reading
                # (sqrt(F) >= 0.99) is demanded, so that neither fidelity convention is presumed
                ctx.count("mle_fidelity_recomputed")
                f_own = float(np.sqrt(max(0.0, float(np.real(np.trace(choi_ref @ choi))))) / d)
                if f_own < 0.99 - 1e-3 and fid >= 0.99:
                    ctx.violation(f"MLE Choi matrix: sqrt(tr(choi_ref choi))/d = {f_own:.4f} although the reported fidelity "
                                  f"is {fid:.4f}", case=case, mechanism="mle_fidelity_recomputed",
                                  monitor="MLEProcessTomography.process post-condition")
                if fid < 0.99:
                    ctx.violation(f"MLE fidelity to choi_from_unitary(V) is {fid:.4f}", case=case,
                                  mechanism="mle_fidelity" + (":nonsymmetric" if complex_nonsym else ""),
                                  monitor="MLEProcessTomography.process post-condition")
            else:
                kind = str(rng.choice(["same", "haar", "transpose", "conj", "same", "near"]))
                # "near": V followed by a small z-rotation of the first qubit - fidelity 1 - 2e-4 ... 1 - 2e-7, not 1
                th_ = float(rng.choice([3e-2, 1e-2, 3e-3, 1e-3]))
                near_ = v @ np.kron(np.diag([np.exp(-0.5j * th_), np.exp(0.5j * th_)]), np.eye(d // 2))
                target = {"same": v, "haar": haar(rng, d), "transpose": v.T, "conj": v.conj(), "near": near_}[kind]
                if kind == "near":
                    ctx.bucket("gate_fidelity_target_close_to_V")
                if kind == "same" and rng.random() < 0.5:
                    target = target * np.exp(1j * rng.uniform(0, 6.28))      # a global phase is irrelevant
                case["target"] = kind
                if "gf" not in objs:
                    objs["gf"] = new_obj(tomo.GateFidelity, n, base, callback())
                gf = objs["gf"]
                f = attempt(lambda: gf.process(target))
                ctx.count("gate_fidelity_postconditions")
                want = (abs(np.trace(target.conj().T @ v)) ** 2 + d) / (d * (d + 1))
                ctx.bucket("gate_fidelity_same_target" if kind == "same" else "gate_fidelity_other_target")
                if abs(f - want) > 1e-8:
                    ctx.violation(f"gate fidelity {f:.9f}, average gate fidelity formula gives {want:.9f} (target {kind})",
                                  case=case, mechanism="gate_fidelity:" + kind, monitor="GateFidelity.process post-condition")
            # the same long-lived tomography object after its base circuit was edited in place
            if reuse_round == 0 and rng.random() < 0.35 and (n == 1 or method != "MLE"):
                reuse_round = 1
                qi = int(rng.integers(n))
                if rng.random() < 0.4:
                    pp = lw.Parameter(float(rng.uniform(0.4, 2.6)))
                    base.ps(base_off + 2 * qi + int(rng.integers(2)), pp)
                    base.add(lw.qubit.H(), base_off + 2 * qi)
                    desc = ["ps(Parameter) + H"]
                else:
                    gate, desc = random_1q(lw, rng)
                    base.add(gate, base_off + 2 * qi)
                log.append(desc + [qi, "added in place after the first process()"])
                case["reused_after_in_place_edit"] = True
                ctx.bucket("tomography_object_reused_after_edit")
                m = tomoref.dual_rail_matrix(base, n)
                v, c, dev = tomoref.normalised_unitary(m)
                if v is None or dev > 1e-8:
                    break
                fp = circmon.circuit_fingerprint(base, with_unitary=True)
                continue
            if reuse_round == 1 and pp is not None:
                # ... and once more after only the value of that Parameter changed
                reuse_round = 2
                pp.set(float(pp.get() + rng.uniform(0.5, 2.0)))
                log.append(["that Parameter set to another value after the second process()"])
                ctx.bucket("tomography_object_reused_after_parameter_change")
                m = tomoref.dual_rail_matrix(base, n)
                v, c, dev = tomoref.normalised_unitary(m)
                if v is None or dev > 1e-8:
                    break
                fp = circmon.circuit_fingerprint(base, with_unitary=True)
                continue
            break
        except Exception as e:  # noqa: BLE001
            if unpost[0] and isinstance(e, ValueError) and "invalid state" in str(e).lower():
                ctx.bucket("data_outside_the_qubit_subspace_refused")       # a refusal, said aloud: fine
            else:
                ctx.violation(f"{method} raised {type(e).__name__}: {e}", case=case,
                              mechanism="process_tomography_raised:" + method + ":" + type(e).__name__, monitor="driver")
        if circmon.circuit_fingerprint(base, with_unitary=True) != fp:
            ctx.violation("the base circuit changed", case=case, mechanism="base_changed", monitor="fingerprint")
        # earlier tomography objects must still report their own results
        for kind_o, obj_o, val_o in earlier:
            ctx.count("earlier_objects_rechecked")
            try:
                now = obj_o.choi if kind_o == "choi" else obj_o.fidelity
                if np.max(np.abs(np.asarray(now) - val_o)) > 1e-12:
                    ctx.violation(f"the {kind_o} reported by an earlier tomography object changed after a later object ran",
                                  case=case, mechanism="earlier_object_changed:" + kind_o, monitor="earlier-object re-read")
            except Exception as e:  # noqa: BLE001
                ctx.count("earlier_reread_raised:" + type(e).__name__)
        if "pt" in objs:
            try:
                earlier.append(("choi", objs["pt"], np.array(objs["pt"].choi, copy=True)))
            except Exception:  # noqa: BLE001
                pass
        if "gf" in objs:
            try:
                earlier.append(("fidelity", objs["gf"], np.array(objs["gf"].fidelity, copy=True)))
            except Exception:  # noqa: BLE001
                pass
        del earlier[:-4]
        ctx.case((n, tuple(tuple(map(str, g)) for g in log), method, case.get("target")),
                 complex_nonsym or case.get("target") not in (None, "same"), sample=case)
        drain_into(ctx, case)
    merge_stats(ctx)
