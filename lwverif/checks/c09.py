"""C09 - circuit rewrites preserve the transformation.

Deciding monitors: post-condition wrappers on unpack_groups / compress_mode_swaps
/ remove_non_adjacent_bs / copy / copy(freeze_parameters=True): U_full entry-wise
equal before and after, heralds and input size unchanged, structural predicates
over the component list, shadow agreement (the shadow is deliberately *not*
advanced by rewrites), and behavioural independence of copy and original."""
from __future__ import annotations

import functools

import numpy as np

from .. import circmon
from ..gen import Builder, pick_phase
from .common import drain_into, merge_stats, setup

PROPERTY = "C09"
RULE = ("seeded random circuits (all component kinds, loss, barriers, unitary blocks, plain and heralded groups, "
        "parameters) followed by random sequences of 1-6 rewrites, each optionally followed by further construction; "
        "distinct = (rewrite sequence, component kinds between two swaps, non-adjacent/reversed BS present, heralded "
        "group present); non-trivial = a rewrite actually had something to do (group / non-adjacent BS / two swaps)")
MANDATORY = ["ancilla_lands_on_group_boundary", "swap_blocked_by:PhaseShifter", "swap_blocked_by:BeamSplitter", "swap_blocked_by:Loss",
             "swap_blocked_by:Group", "swap_blocked_by:UnitaryMatrix", "swaps_mergeable",
             "reversed_nonadjacent_bs_in_group", "heralded_group_unpacked", "frozen_copy", "independence_checked",
             "original_gets_heralded_subcircuit_after_copy", "copy_unpacked_then_edited", "rewrite_applied_twice"]
DECIDING = ["rewrite_postconditions", "mon.cmp"]
BUDGET = {"quick": 25, "thorough": 420}
ASSUMPTIONS = ["U_full compared entry-wise to 1e-9 (the rewrites do not reorder loss modes)",
               "structural sharing is not judged, only behavioural independence (components are copy-on-write)"]

_ctx = None


def flat(spec, in_group=False):
    for s in spec:
        if type(s).__name__ == "Group":
            yield s, in_group
            yield from flat(s.circuit_spec, True)
        else:
            yield s, in_group


def n_components(spec):
    return sum(1 for _ in flat(spec))


def snapshot(c):
    try:
        u = c.U_full.copy()
    except Exception:  # noqa: BLE001
        u = None
    return {"u": u, "heralds": c.heralds, "input_modes": c.input_modes, "n_modes": c.n_modes,
            "n_comp": n_components(c._get_circuit_spec()), "n_top": len(c._get_circuit_spec())}


def judge(name, before, c, case_note):
    problems = []
    after = snapshot(c)
    if before["u"] is not None:
        if after["u"] is None:
            problems.append(("compile", "circuit no longer compiles"))
        elif after["u"].shape != before["u"].shape:
            problems.append(("shape", f"U_full shape {before['u'].shape} -> {after['u'].shape}"))
        else:
            d = float(np.max(np.abs(after["u"] - before["u"]))) if before["u"].size else 0.0
            if d > 1e-9:
                problems.append(("unitary", f"U_full changed by {d:.3g}"))
    if sorted(after["heralds"]["input"].items()) != sorted(before["heralds"]["input"].items()) or \
            sorted(after["heralds"]["output"].items()) != sorted(before["heralds"]["output"].items()):
        problems.append(("heralds", f"heralds {before['heralds']} -> {after['heralds']}"))
    if after["input_modes"] != before["input_modes"] or after["n_modes"] != before["n_modes"]:
        problems.append(("size", f"input_modes/n_modes {before['input_modes']}/{before['n_modes']} -> "
                                 f"{after['input_modes']}/{after['n_modes']}"))
    spec = c._get_circuit_spec()
    if name == "unpack_groups" and any(type(s).__name__ == "Group" for s, _ in flat(spec)):
        problems.append(("structure", "a Group remains after unpack_groups"))
    if name == "remove_non_adjacent_bs":
        for s, g in flat(spec):
            if type(s).__name__ == "BeamSplitter" and abs(s.mode_1 - s.mode_2) != 1:
                problems.append(("structure", f"beam splitter on modes {s.mode_1},{s.mode_2} remains"
                                              + (" (inside a group)" if g else "")))
                break
    if name == "compress_mode_swaps" and after["n_top"] > before["n_top"]:
        problems.append(("structure", f"component count grew {before['n_top']} -> {after['n_top']}"))
    return problems


def install_rewrite_monitors(Circuit):
    for name in ("unpack_groups", "compress_mode_swaps", "remove_non_adjacent_bs"):
        orig = Circuit.__dict__[name]

        def make(name, orig):
            @functools.wraps(orig)
            def w(self):
                if circmon._depth > 0:
                    return orig(self)
                before = snapshot(self)
                res = orig(self)
                circmon.STATS["rewrite_postconditions_raw"] += 1
                for kind, detail in judge(name, before, self, None):
                    circmon.report("C09", f"{name}: {detail}", monitor=f"{name} post-condition",
                                   mechanism=f"rewrite_{kind}:{name}")
                return res
            return w
        setattr(Circuit, name, make(name, orig))
    orig_copy = Circuit.__dict__["copy"]

    @functools.wraps(orig_copy)
    def copy(self, freeze_parameters=False):
        if circmon._depth > 0:
            return orig_copy(self, freeze_parameters)
        res = orig_copy(self, freeze_parameters)
        circmon.STATS["rewrite_postconditions_raw"] += 1
        a, b = snapshot(self), snapshot(res)
        name = "copy(freeze)" if freeze_parameters else "copy"
        if (a["u"] is None) != (b["u"] is None) or (a["u"] is not None and (
                a["u"].shape != b["u"].shape or np.max(np.abs(a["u"] - b["u"]), initial=0) > 1e-9)):
            circmon.report("C09", f"{name}: U_full of the copy differs", monitor="copy post-condition",
                           mechanism=f"rewrite_unitary:{name}")
        if a["heralds"] != b["heralds"] or a["input_modes"] != b["input_modes"]:
            circmon.report("C09", f"{name}: heralds / input size of the copy differ", monitor="copy post-condition",
                           mechanism=f"rewrite_heralds:{name}")
        if freeze_parameters and res.get_all_params():
            circmon.report("C09", "frozen copy still lists parameters", monitor="copy post-condition",
                           mechanism="rewrite_structure:copy(freeze)")
        return res

    Circuit.copy = copy


def buckets_before(ctx, c, rewrite):
    spec = c._get_circuit_spec()
    if rewrite == "compress_mode_swaps":
        last_swap = None
        for i, s in enumerate(spec):
            if type(s).__name__ == "ModeSwaps":
                if last_swap is not None:
                    between = {type(x).__name__ for x in spec[last_swap + 1:i]} - {"Barrier"}
                    if not between:
                        ctx.bucket("swaps_mergeable")
                    for k in between:
                        ctx.bucket("swap_blocked_by:" + k)
                last_swap = i
        return last_swap is not None
    if rewrite == "remove_non_adjacent_bs":
        hit = False
        for s, g in flat(spec):
            if type(s).__name__ == "BeamSplitter" and abs(s.mode_1 - s.mode_2) != 1:
                hit = True
                if g and s.mode_1 > s.mode_2:
                    ctx.bucket("reversed_nonadjacent_bs_in_group")
                if g:
                    ctx.bucket("nonadjacent_bs_in_group")
        return hit
    if rewrite == "unpack_groups":
        groups = [s for s in spec if type(s).__name__ == "Group"]
        if any(g.heralds["input"] for g in groups):
            ctx.bucket("heralded_group_unpacked")
        return bool(groups)
    return True


def sandwich(ctx, lw, rng, b):
    """Directed family: swap - grouped sub-circuit - swap, where the swaps touch a boundary mode of the group and one
    mode outside it, and afterwards a heralded child is added so that its ancilla lands on the group's first mode, inside
    it, on its last mode or just behind it. What a group blocks for swap compression is decided by its recorded mode
    range, which every insertion of an empty mode has to shift correctly."""
    n = int(rng.integers(5, 8))
    g = int(rng.integers(2, 4))
    a = int(rng.integers(1, n - g))              # one free mode below and above the group
    last = a + g - 1
    c = lw.Circuit(n)
    log = [["circuit", n]]
    edge, outside = (last, last + 1) if rng.random() < 0.6 else (a, a - 1)
    sw = {edge: outside, outside: edge}
    c.mode_swaps(dict(sw)); log.append(["swaps", sw])
    sub_log: list = []
    sub = b.leaf(g, int(rng.integers(1, 4)), sub_log, heralds=0)
    c.add(sub, a, True); log.append(["add", sub_log, a, True])
    if rng.random() < 0.7:
        c.mode_swaps(dict(sw)); log.append(["swaps", sw])
    else:
        other = outside + (1 if outside > edge else -1)
        sw2 = {edge: outside, outside: edge} if not 0 <= other < n else {outside: other, other: outside}
        c.mode_swaps(dict(sw2)); log.append(["swaps", sw2])
    # a heralded child (1 visible mode, 1 herald) whose ancilla is inserted at parent index `target`
    target = int(rng.choice([a, last, last, last + 1, int(rng.integers(a, last + 1))]))
    h = int(rng.integers(0, 2))                  # the herald is the child's mode h, its visible mode the other one
    m = target - h
    if 0 <= m < n:
        child = lw.Circuit(2)
        child.bs(0, 1, float(rng.uniform(0.2, 0.8)))
        child.herald(int(rng.integers(0, 2)), h)
        c.add(child, m); log.append(["add", [["circuit", 2], ["bs", 0, 1], ["herald", "n", h, None]], m, True])
        ctx.bucket("ancilla_lands_on_group_boundary")
    if rng.random() < 0.5:
        c.mode_swaps({0: 1, 1: 0}); log.append(["swaps", {0: 1, 1: 0}])
    return c, log


def run(ctx):
    lw = setup(ctx, warm=False)
    install_rewrite_monitors(circmon.Circuit)
    rng = ctx.rng
    while not ctx.out_of_time():
        b = Builder(rng, lw, loss_p=float(rng.choice([0.0, 0.2])), param_p=float(rng.choice([0.0, 0.3])))
        log: list = []
        try:
            n = int(rng.integers(2, 7))
            c = b.tree(n, int(rng.choice([0, 1, 1, 2])), log, max_children=int(rng.choice([1, 3])),
                       steps=(0, 0) if rng.random() < 0.2 else (2, 8),
                       group_p=0.7, gate_p=0.15, direct_heralds_p=0.2)
            if rng.random() < 0.5:
                # directed: a grouped child holding a reversed, non-adjacent beam splitter
                sub = lw.Circuit(3)
                sub.bs(2, 0, float(rng.random()), 0, str(rng.choice(["Rx", "H"])))
                if b.numbered(c) >= 3:
                    c.add(sub, int(rng.integers(0, b.numbered(c) - 2)), True)
                    log.append(["add", [["circuit", 3], ["bs", 2, 0]], "m", True])
            if rng.random() < 0.25:
                c, log = sandwich(ctx, lw, rng, b)
            if rng.random() < 0.03:
                # wide register with two or three large, non-commuting swaps in a row (mergeable: > 32 entries in total)
                n = int(rng.choice([17, 20, 24, 33]))
                c = lw.Circuit(n); log = [["circuit", n]]
                for _ in range(int(rng.integers(2, 4))):
                    perm = [int(x) for x in rng.permutation(n)]
                    c.mode_swaps(dict(zip(range(n), perm))); log.append(["swaps", "full permutation of %d modes" % n])
                if rng.random() < 0.5:
                    c.bs(0, 1, 0.3); log.append(["bs", 0, 1, 0.3, "Rx", 0])
                    c.mode_swaps({0: 2, 2: 5, 5: 0}); log.append(["swaps", {0: 2, 2: 5, 5: 0}])
                ctx.bucket("wide_register_large_swaps")
        except Exception as e:  # noqa: BLE001
            ctx.count("construction_raised:" + type(e).__name__)
            circmon.drain()
            continue
        circmon.drain()
        seq = []
        did_something = False
        for _ in range(int(rng.integers(1, 7))):
            rw = str(rng.choice(["unpack_groups", "compress_mode_swaps", "remove_non_adjacent_bs", "copy", "freeze"]))
            seq.append(rw)
            try:
                did_something = buckets_before(ctx, c, rw) or did_something
                if rw in ("copy", "freeze"):
                    fz = rw == "freeze"
                    fp_c = circmon.circuit_fingerprint(c, with_unitary=True)
                    c2 = c.copy(freeze_parameters=fz)
                    if fz:
                        ctx.bucket("frozen_copy")
                    # behavioural independence: edit one, the other must not move
                    fp2 = circmon.circuit_fingerprint(c2, with_unitary=True)
                    if rng.random() < 0.5:
                        c2.unpack_groups()          # the copy is rewritten first, then edited
                        ctx.bucket("copy_unpacked_then_edited")
                    b.primitive(c2, [], None)
                    if rng.random() < 0.5:
                        c2.compress_mode_swaps() if rng.random() < 0.5 else c2.remove_non_adjacent_bs()
                    ctx.bucket("independence_checked")
                    if circmon.circuit_fingerprint(c, with_unitary=True) != fp_c:
                        ctx.violation(f"editing a {rw} changed the original", case={"circuit": log, "rewrites": seq},
                                      mechanism="copy_not_independent:" + rw, monitor="behavioural independence")
                    fp2 = circmon.circuit_fingerprint(c2, with_unitary=True)
                    if rng.random() < 0.5 and b.numbered(c) >= 1:
                        sub = b.leaf(2, 2, [], heralds=1)          # a heralded sub-circuit: inserts an ancilla mode
                        c.add(sub, int(rng.integers(0, b.numbered(c) - sub.input_modes + 1)))
                        log.append(["add", "heralded leaf", "m", True])
                        ctx.bucket("original_gets_heralded_subcircuit_after_copy")
                    else:
                        b.primitive(c, log, None)
                    if circmon.circuit_fingerprint(c2, with_unitary=True) != fp2:
                        ctx.violation(f"editing the original changed its {rw}", case={"circuit": log, "rewrites": seq},
                                      mechanism="copy_not_independent:" + rw, monitor="behavioural independence")
                    if rng.random() < 0.5:
                        c = c2
                else:
                    getattr(c, rw)()
                    if rng.random() < 0.3:
                        spec_once = circmon.spec_digest(c._get_circuit_spec(), ids=False)
                        getattr(c, rw)()                   # the monitor checks U_full etc. again
                        ctx.bucket("rewrite_applied_twice")
                        if rw != "compress_mode_swaps" and circmon.spec_digest(c._get_circuit_spec(), ids=False) != spec_once:
                            ctx.violation(f"{rw} applied a second time changed the component list again",
                                          case={"circuit": log, "rewrites": seq}, mechanism="rewrite_not_idempotent:" + rw,
                                          monitor="repeated rewrite")
                ctx.count("rewrite_postconditions")
            except Exception as e:  # noqa: BLE001
                ctx.violation(f"{rw} raised {type(e).__name__}: {e}", case={"circuit": log, "rewrites": seq},
                              mechanism="rewrite_raised:" + rw, monitor="driver")
                break
            if b.params and rng.random() < 0.3:
                # the rewritten circuit is still built from the same Parameter objects: move one, compare again below
                q = b.params[int(rng.integers(len(b.params)))]
                try:
                    v0 = q.get()
                    q.set(float(rng.uniform(0.05, 0.95)) if (isinstance(v0, (int, float, np.floating, np.integer)) and 0 <= v0 <= 1) else pick_phase(rng))
                    ctx.bucket("parameter_moved_after_rewrite")
                    log.append(["parameter_set_after", rw])
                except Exception as e:  # noqa: BLE001
                    ctx.count("param_set_raised:" + type(e).__name__)
            status, problems = circmon.compare(c, rng)
            if status == "compared":
                for kind, detail in problems:
                    if kind == "unitarity":
                        continue
                    ctx.violation(f"after {seq}: {kind}: {detail}", case={"circuit": log, "rewrites": seq},
                                  mechanism="rewrite_shadow_" + kind + ":" + rw, monitor="shadow agreement after rewrite")
            if rng.random() < 0.4:
                try:
                    b.primitive(c, log, None)
                except Exception as e:  # noqa: BLE001
                    ctx.count("post_rewrite_construction_raised:" + type(e).__name__)
            drain_into(ctx, {"circuit": log, "rewrites": list(seq)})
        kinds = tuple(sorted({st[0] for st in log if isinstance(st, list)}))
        ctx.case((tuple(seq), kinds, n), did_something, sample={"circuit": log, "rewrites": seq})
    merge_stats(ctx)
