"""C13 - the qubit gate library implements the gates it names.

Deciding monitor: a post-condition on every gate constructor (fires for each
instance created anywhere in the process, evaluated once per distinct class and
arguments): the dual-rail amplitude matrix computed with the own permanent from
the instance's U_full and heralds must be one scalar times the textbook matrix,
with the stated squared scalar, and heralded gates must not leak out of the
qubit subspace. The discrete part (all gates, all target options, all SWAP mode
pairs up to 6 modes) is enumerated completely; angles are sampled."""
from __future__ import annotations

import functools
import math
from itertools import permutations

import numpy as np

from .. import circmon, qubitref as qr
from .common import drain_into, merge_stats, setup

PROPERTY = "C13"
RULE = ("every gate class x every target_qubit option x every basis input; SWAP over all ordered mode 4-tuples within 6 "
        "modes (complete enumeration of the discrete part); rotation angles from a fixed grid of 64 values (multiples of "
        "pi/4, +-2pi, ...), every multiple of pi/4, pi/3 and pi up to |k|=64 with its floating-point neighbours, accumulated "
        "and linspace sweep values, plus seeded random angles; distinct = (gate, option, angle); non-trivial = every case "
        "(each checks a full amplitude matrix incl. relative phases)")
MANDATORY = ["gate_object_used_then_rechecked", "single_qubit", "rotation", "CZ", "CNOT", "CZ_Heralded", "CNOT_Heralded", "CCZ", "CCNOT", "SWAP",
             "heralded_leakage_checked", "second_pass_shuffled"]
DECIDING = ["mon.gate_postconditions"]
BUDGET = {"quick": 20, "thorough": 240}
SHARDS = {"quick": 8, "thorough": 16}
ASSUMPTIONS = ["textbook matrices with qubit 0 as the most significant bit; dual-rail |0> = photon in the first mode "
               "of the pair", "tolerance 1e-9 on amplitudes and on |c|^2"]

EXPECTED_C2 = {"CZ": 1 / 9, "CNOT": 1 / 9, "CZ_Heralded": 1 / 16, "CNOT_Heralded": 1 / 16, "CCZ": 1 / 72,
               "CCNOT": 1 / 72}
SINGLE = ["I", "H", "X", "Y", "Z", "S", "Sadj", "T", "Tadj", "SX"]
ROT = ["P", "Rx", "Ry", "Rz"]
_seen: set = set()


def check_gate(name, args, inst):
    """Returns problem strings for one gate instance."""
    problems = []
    u, h, n = inst.U_full, inst.heralds, inst.n_modes
    if name in SINGLE or name in ROT:
        g = qr.textbook(name, *args)
        m, leak = qr.subspace_matrix(u, h, n, 1)
        ok, c, dev = qr.proportional(m, g)
        if not ok:
            problems.append(f"matrix: {name}{args} acts as {np.round(m, 6).tolist()}, not a multiple of the named gate (dev {dev:.3g})")
        elif abs(abs(c) ** 2 - 1) > 1e-9:
            problems.append(f"scalar: {name}{args} has |c|^2 = {abs(c) ** 2:.9f}, expected 1")
        return problems
    if name == "SWAP":
        (a0, a1), (b0, b1) = args
        nm = max(a0, a1, b0, b1) + 1
        perm = np.eye(nm, dtype=complex)
        for x, y in ((a0, b0), (a1, b1)):
            perm[x, x] = perm[y, y] = 0
            perm[y, x] = perm[x, y] = 1
        if u.shape != perm.shape or np.max(np.abs(u - perm)) > 1e-9:
            problems.append(f"matrix: SWAP{args} is not the exchange of the two mode pairs")
        return problems
    nq = 3 if name in ("CCZ", "CCNOT") else 2
    target = int(args[0]) if args else None
    if args and type(args[0]) is not int:
        circmon.STATS["gate_target_given_as_other_numeric_type"] += 1
    g = qr.multi_qubit(name.replace("_Heralded", ""), target)
    heralded = name.endswith("_Heralded")
    m, leak = qr.subspace_matrix(u, h, n, nq, accept=None if heralded else qr.one_photon_per_qubit(nq))
    ok, c, dev = qr.proportional(m, g)
    if not ok:
        problems.append(f"matrix: {name}{args} is not a multiple of the named gate (max deviation {dev:.3g})")
    elif abs(abs(c) ** 2 - EXPECTED_C2[name]) > 1e-9:
        problems.append(f"scalar: {name}{args} has |c|^2 = {abs(c) ** 2:.9f}, expected {EXPECTED_C2[name]:.9f}")
    if heralded:
        circmon.STATS["gate_leakage_checks"] += 1
        if leak:
            b, o, a = leak[0]
            problems.append(f"leak: {name}{args} maps |{b}> to accepted non-qubit output {list(o)} with amplitude {a:.6f}")
    return problems


def install_gate_monitors(lw):
    q = lw.qubit
    if getattr(q, "_lwverif_gates", False):
        return
    for name in SINGLE + ROT + ["SWAP", "CZ", "CNOT", "CZ_Heralded", "CNOT_Heralded", "CCZ", "CCNOT"]:
        cls = getattr(q, name)
        orig = cls.__init__

        def make(name, orig):
            @functools.wraps(orig)
            def init(self, *a, **k):
                orig(self, *a, **k)
                args = tuple(a) + tuple(k.values())
                key = (name, repr(args))
                if key in _seen or type(self).__name__ != name:
                    return
                _seen.add(key)
                try:
                    problems = check_gate(name, args, self)
                    p2 = circmon.scribble_probe(self)
                    if p2:
                        problems.append("alias: " + p2)
                    problems += ["second_use: " + p.split(": ", 1)[-1] for p in check_gate(name, args, self)
                                 if not problems]
                except Exception as e:  # noqa: BLE001
                    circmon.STATS["gate_monitor_error:" + type(e).__name__] += 1
                    return
                circmon.STATS["gate_postconditions"] += 1
                for p in problems:
                    circmon.report("C13", p, monitor=f"{name} constructor post-condition",
                                   mechanism="gate_" + p.split(":")[0] + ":" + name)
            return init
        cls.__init__ = make(name, orig)
    q._lwverif_gates = True


GRID = sorted({k * math.pi / 4 for k in range(-8, 9)} | {k * math.pi / 3 for k in range(-6, 7)}
              | {0.0, 1e-12, -1e-12, 2 * math.pi, -2 * math.pi, 4 * math.pi, math.pi / 7, -math.pi / 5, 1.0, -1.0,
                 0.1, 3.0, 6.0, 6.283, 10.0, -10.0, 100.0, math.e, 2 ** 0.5, -7.5, 12.0, 0.5, -0.5, 2.5, -2.5,
                 1.5707, 3.1415, 4.7123, 5.5, -3.3, 8.8, 0.01, -0.01})


def special_angles():
    """Angles where a closed-form / table shortcut could go wrong: every multiple of pi/4 and pi/3 up to |k| = 64
    written the obvious way, their floating-point neighbours, and values that carry accumulated rounding error."""
    out = set(GRID)
    base = set()
    for k in range(-64, 65):
        base.add(k * math.pi / 4)
        base.add(k * (math.pi / 2) / 2)
        base.add(k * math.pi / 3)
        base.add(k * math.pi)
    for v in list(base):
        if abs(v) <= 8 * math.pi:
            for d in (1e-3, 2e-5, 1e-7, 1e-9, 1e-12):
                out.add(v + d)
                out.add(v - d)
    for v in list(base):
        out.add(v)
        out.add(float(np.nextafter(v, 0)))
        out.add(float(np.nextafter(v, math.inf)))
        out.add(float(np.nextafter(v, -math.inf)))
    for steps, unit in ((6, math.pi / 6), (12, math.pi / 6), (8, math.pi / 4), (10, math.pi / 5), (3, math.pi / 3)):
        acc = 0.0
        for _ in range(steps * 4):
            acc += unit
            out.add(acc)
            out.add(-acc)
    for n in (101, 51, 33):
        out.update(float(x) for x in np.linspace(-math.pi, math.pi, n))
        out.update(float(x) for x in np.linspace(0, 4 * math.pi, n))
    return sorted(out)


def run(ctx):
    lw = setup(ctx, warm=False)
    install_gate_monitors(lw)
    q = lw.qubit
    rng = ctx.rng
    jobs = []
    for name in SINGLE:
        jobs.append((name, ()))
    for name in ROT:
        for th in special_angles():
            jobs.append((name, (th,)))
    # the same (integral) angles handed over as other numeric types: Python int, numpy signed / unsigned integers, float64
    for name in ROT:
        for kk in (0, 1, 2, 3, 5, 6, 7, 12, 100, 200):
            for ty in (int, np.int8, np.int16, np.int32, np.int64, np.uint8, np.uint16, np.uint32, np.uint64, np.float64):
                if kk > 120 and ty is np.int8:
                    continue
                jobs.append((name, (ty(kk),)))
        for kk in (-1, -3, -7):
            for ty in (int, np.int8, np.int64, np.float64):
                jobs.append((name, (ty(kk),)))
    # huge angles (the period is irrational in floating point: any reduction modulo 2 pi / 4 pi must be exact) and angles
    # carried by narrower numpy float types (values exactly representable there)
    for name in ROT:
        for th in (1e9, -7e12, 1e15, -2.5e15, 1e16, 3e17, 123456789012.5):
            jobs.append((name, (th,)))
        for ty in (np.float16, np.float32):
            for v in (1.0, 0.125, 2.5, -3.0, 0.5, 6.25):
                jobs.append((name, (ty(v),)))
    jobs += [("CZ", ()), ("CZ_Heralded", ()), ("CCZ", ())]
    jobs += [("CNOT", (t,)) for t in (0, 1)] + [("CNOT_Heralded", (t,)) for t in (0, 1)]
    jobs += [("CCNOT", (t,)) for t in (0, 1, 2)]
    # the target qubit handed over as other integer-valued types (a loop over numpy.arange, an index read from an array)
    for ty in (np.int64, np.int32, np.intp, np.uint8, float, bool, np.bool_):
        jobs += [("CNOT", (ty(t),)) for t in (0, 1)] + [("CNOT_Heralded", (ty(t),)) for t in (0, 1)]
        jobs += [("CCNOT", (ty(t),)) for t in ((0, 1, 2) if ty not in (bool, np.bool_) else (0, 1))]
    for a0, a1, b0, b1 in permutations(range(6), 4):
        jobs.append(("SWAP", ((a0, a1), (b0, b1))))
    # SWAP between far-apart qubits in wide registers (the gate spans max(mode)+1 modes, the other modes stay put)
    for top in (6, 7, 9, 12, 15, 16, 17, 18, 24, 31, 32, 33, 40, 63, 64, 65):
        jobs += [("SWAP", ((0, 1), (top - 1, top))), ("SWAP", ((top, top - 1), (1, 0))), ("SWAP", ((top - 2, 0), (top, 1))),
                 ("SWAP", ((top // 2, top), (0, top // 2 - 1)))]
    for i, (name, args) in enumerate(jobs):
        if i % ctx.nshards != ctx.shard:
            continue
        run_job(ctx, q, name, args)
    # second pass over the discrete part in a seeded random order: a gate must not depend on what was built before
    _seen.clear()
    mine = [j for i, j in enumerate(jobs) if i % ctx.nshards == ctx.shard and j[0] not in ROT]
    for idx in rng.permutation(len(mine)):
        name, args = mine[int(idx)]
        run_job(ctx, q, name, args)
        ctx.bucket("second_pass_shuffled")
    # sampled continuum
    while not ctx.out_of_time():
        if rng.random() < 0.15:
            width = int(rng.choice([5, 8, 12, 17, 20, 30, 48]))
            a0, a1, b0, b1 = (int(x) for x in rng.choice(width, size=4, replace=False))
            run_job(ctx, q, "SWAP", ((a0, a1), (b0, b1)))
            ctx.bucket("swap_in_wide_register")
            continue
        name = str(rng.choice(ROT))
        th = float(rng.choice([rng.uniform(-4 * math.pi, 4 * math.pi), rng.normal() * 1e-3, rng.uniform(-100, 100)]))
        run_job(ctx, q, name, (th,))
        if ctx.tier == "quick" and ctx.evaluations > 3000:
            break
    merge_stats(ctx)


def run_job(ctx, q, name, args):
    g = None
    try:
        g = getattr(q, name)(*args)
    except Exception as e:  # noqa: BLE001
        ctx.violation(f"constructing {name}{args} raised {type(e).__name__}: {e}", case={"gate": name, "args": args},
                      mechanism="gate_constructor_raised:" + name, monitor="driver")
    if g is not None and (name not in ROT or ctx.rng.random() < 0.04):
        # the gate object is then *used* - copied, summed, added to a larger circuit - and what was derived from it is
        # extended and rewritten in place; the gate itself must still be the gate it names
        rng = ctx.rng
        try:
            n = g.n_modes - len(g._internal_modes)
            how = str(rng.choice(["copy", "sum", "add"])) if not g.heralds["input"] else str(rng.choice(["copy", "add"]))
            if how == "copy":
                d = g.copy()
            elif how == "sum":
                d = (g + g) if rng.random() < 0.5 else (g + g.copy())
            else:
                import lightworks as _lw  # noqa: PLC0415
                d = _lw.Circuit(n + 1)
                d.add(g, int(rng.integers(0, 2)), bool(rng.random() < 0.5))
            nd = d.n_modes - len(d._internal_modes)
            if nd >= 2:
                a = int(rng.integers(nd - 1))
                d.mode_swaps({a: a + 1, a + 1: a})
                if rng.random() < 0.5:
                    d.mode_swaps({a: a + 1, a + 1: a})
            for rw in rng.permutation(["compress_mode_swaps", "remove_non_adjacent_bs", "unpack_groups"])[: int(rng.integers(1, 4))]:
                getattr(d, str(rw))()
            ctx.bucket("gate_object_used_then_rechecked")
            for p in check_gate(name, args, g):
                ctx.violation(f"{name}{args} after it was used ({how}) and the derived circuit was rewritten: {p}",
                              case={"gate": name, "args": list(args), "used_as": how},
                              mechanism="gate_after_use:" + p.split(":")[0] + ":" + name, monitor="gate re-check after use")
        except Exception as e:  # noqa: BLE001
            ctx.count("use_probe_raised:" + type(e).__name__)
    if name in SINGLE:
        ctx.bucket("single_qubit")
    elif name in ROT:
        ctx.bucket("rotation")
    else:
        ctx.bucket(name)
    if name.endswith("_Heralded"):
        ctx.bucket("heralded_leakage_checked")
    ctx.case((name, repr(args)), True, sample={"gate": name, "args": list(args)})
    drain_into(ctx, {"gate": name, "args": args})
