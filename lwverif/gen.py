"""Seeded workload generators that drive the *real* API (DESIGN 2.4).

Generators build circuits step by step through public calls only and keep a
JSON-able log of what they did (the "program"), which goes into witnesses and
evidence samples. They may consult the circuit's public state to choose legal
placements; they never decide a verdict.
"""
from __future__ import annotations

import math

import numpy as np

TINY = 1e-12


def haar(rng, n: int) -> np.ndarray:
    z = (rng.normal(size=(n, n)) + 1j * rng.normal(size=(n, n))) / math.sqrt(2)
    q, r = np.linalg.qr(z)
    d = np.diag(r)
    return q * (d / np.abs(d))


def pick_unit(rng, boundary_p: float = 0.25) -> float:
    """A value in [0,1], often a boundary value."""
    if rng.random() < boundary_p:
        v = rng.choice([0.0, 1.0, TINY, 1 - 1e-9, 0.5, 1e-5, 1 - 1e-5, 1 - 1e-13, float(np.nextafter(1.0, 0.0)), 1e-16])
        if v in (0.0, 1.0) and rng.random() < 0.5:
            return int(v)                       # Python ints are legal values too
        return float(v)
    return float(rng.random())


def pick_phase(rng) -> float:
    if rng.random() < 0.2:
        v = rng.choice([0.0, math.pi, 2 * math.pi, -math.pi / 2, 4 * math.pi, -2 * math.pi, TINY, 1e6, -123456.789,
                        3.0, -1.0, 0.0, 1e9, -7e12, 1e16, 123456789012.5])      # huge phases are phases too
        if float(v).is_integer() and rng.random() < 0.5:
            return int(v)
        return float(v)
    if rng.random() < 0.08:
        return float(int(rng.integers(-9, 10)) * math.pi / 4)       # every multiple of pi/4 (labels like 3pi/4, -5pi/4)
    if rng.random() < 0.06:
        # whole turns and values a hair off them (float modulo 2*pi may land on 2*pi itself), large multiples of pi / 4
        k = int(rng.choice([0, 1, -1, 2, 11, -13, 50, 1000]))
        off = float(rng.choice([0.0, -1e-12, 1e-12, -1e-9, 1e-9, -1e-16, 0.3 - 0.1 - 0.2, -3e-7]))
        v = k * 2 * math.pi + off
        if rng.random() < 0.3:
            v = int(rng.integers(-120, 121)) * math.pi / 4 + off
        return float(v)      # (single-precision phases would carry single-precision error into U: not offered)
    return float(rng.uniform(-4 * math.pi, 4 * math.pi))


def pick_seed(rng) -> int:
    """A random seed; boundary values (0, 1, 2**32-1) are legal seeds and are used often."""
    r = rng.random()
    if r < 0.12:
        return 0
    if r < 0.16:
        return int(rng.choice([1, 2 ** 31 - 1, 2 ** 32 - 1]))
    v = int(rng.integers(1 << 30))
    if r < 0.22:
        return np.int64(v)          # numpy integers and integral floats are accepted seeds too
    if r < 0.26:
        return float(v)
    return v


def two_modes(rng, n: int, adjacent_p: float = 0.4):
    a = int(rng.integers(n))
    if rng.random() < adjacent_p and n > 1:
        b = a + 1 if a + 1 < n else a - 1
    else:
        b = int(rng.integers(n - 1))
        if b >= a:
            b += 1
    return a, b


def random_swaps(rng, n: int) -> dict:
    kind = rng.random()
    if kind < 0.1:
        return {}
    k = int(rng.integers(1, n + 1)) if kind < 0.7 else n
    modes = sorted(rng.choice(n, size=k, replace=False).tolist())
    perm = rng.permutation(modes).tolist()
    pairs = list(zip(modes, perm))
    if rng.random() < 0.6:
        rng.shuffle(pairs)                      # insertion order of the dictionary must not matter
    return {int(a): int(b) for a, b in pairs}


GATES_1Q = ["H", "X", "Y", "Z", "S", "T", "SX"]


def herald_in_place(c, rng, photons=(0, 1)):
    """Declares one more herald directly on circuit ``c`` (same input and output mode, a free numbered mode).
    Returns True if a herald was added."""
    nn = c.n_modes - len(c._internal_modes)
    free = [m for m in range(nn) if c._map_mode(m) not in c.heralds["input"]
            and c._map_mode(m) not in c.heralds["output"]]
    if len(free) < 2:
        return False
    c.herald(int(rng.choice(photons)), int(rng.choice(free)))
    return True


def equivalent_variant(c, rng):
    """The same circuit in another, equivalent presentation: itself, a copy, a frozen copy, or a copy that went
    through one of the transformation-preserving rewrites. Every consumer must treat all of them alike."""
    kind = str(rng.choice(["itself", "itself", "copy", "copy", "frozen_copy", "unpacked_copy", "compressed_copy",
                           "adjacent_bs_copy", "copy_of_copy"]))
    if kind == "itself":
        return c, kind
    v = c.copy(freeze_parameters=(kind == "frozen_copy"))
    if kind == "unpacked_copy":
        v.unpack_groups()
    elif kind == "compressed_copy":
        v.compress_mode_swaps()
    elif kind == "adjacent_bs_copy":
        v.remove_non_adjacent_bs()
    elif kind == "copy_of_copy":
        v = v.copy()
    return v, kind


class Builder:
    """Builds random circuits through the public API, logging the program."""

    def __init__(self, rng, lw, *, loss_p=0.15, param_p=0.0, allow=None, max_herald_photons=2,
                 on_add=None, mode_form_p=0.06):
        self.on_add = on_add
        self.mode_form_p = mode_form_p   # how often a mode number is handed over as numpy integer / integral float
        self.value_form_p = 0.03         # how often a reflectivity / phase / loss is handed over as numpy float16/32/64
        self._forms: list = []
        self.last = None            # description of the API call being attempted
        self.children: list = []    # (child circuit, its log) of every circuit that was added to a parent
        self.rng, self.lw = rng, lw
        self.loss_p = loss_p
        self.param_p = param_p
        self.allow = allow or {"bs", "ps", "loss", "barrier", "swaps", "unitary"}
        self.max_herald_photons = max_herald_photons
        self.params: list = []

    # -- mode numbers in the equivalent forms the Circuit API accepts (its range check admits any integer-valued number)
    def F(self, m):
        if m is None or self.rng.random() >= self.mode_form_p:
            return m
        form = str(self.rng.choice(["np.int64", "np.int32", "np.intp", "float", "np.uint8", "np.int8", "np.uint16"]))
        if not 0 <= m <= 127:
            form = "np.int64" if form in ("np.uint8", "np.int8", "np.uint16") else form
        self._forms.append(form)
        return {"np.int64": np.int64, "np.int32": np.int32, "np.intp": np.intp, "float": float,
                "np.uint8": np.uint8, "np.int8": np.int8, "np.uint16": np.uint16}[form](m)

    def _note_forms(self, log):
        if self._forms:
            log.append(["mode_form", "the previous call's mode numbers were passed as " + "/".join(sorted(set(self._forms)))])
            self._forms = []

    # -- values, possibly wrapped in Parameters
    def _maybe_param(self, v, lo=None, hi=None):
        if isinstance(v, float) and self.rng.random() < self.value_form_p:
            # the same number carried by a narrower / other numpy float type (the value is exactly representable there,
            # so the documented matrix is unchanged: only the carrier differs)
            ty = [np.float32, np.float16, np.float64][int(self.rng.integers(3))]
            with np.errstate(over="ignore"):
                w = ty(v)
            if np.isfinite(w):             # (a huge phase does not fit a float16: it stays a Python float)
                v = ty(float(w))
                self._forms.append("value as " + ty.__name__)
        if self.rng.random() < self.param_p:
            p = self.lw.Parameter(v)
            self.params.append(p)
            return p, ("P", v)
        return v, v

    def primitive(self, c, log, n=None):
        """Apply one random primitive component to circuit ``c`` (numbered modes)."""
        rng = self.rng
        n = self.numbered(c) if n is None else n
        kinds = [k for k in ("bs", "ps", "loss", "barrier", "swaps", "unitary") if k in self.allow]
        w = {"bs": 4, "ps": 2, "loss": 1.2 if not getattr(self, "long_program", False) else 0.02, "barrier": 0.4,
             "swaps": 1.2, "unitary": 1.0}
        if n < 2:
            kinds = [k for k in kinds if k not in ("bs",)]
        p = np.array([w[k] for k in kinds])
        kind = str(rng.choice(kinds, p=p / p.sum()))
        if kind == "bs":
            a, b = two_modes(rng, n)
            r, rl = self._maybe_param(pick_unit(rng))
            conv = "H" if rng.random() < 0.4 else "Rx"
            loss = 0
            if "loss" in self.allow and rng.random() < self.loss_p:
                loss = pick_unit(rng)
            if rng.random() < 0.15 and b == a + 1 and loss == 0 and conv == "Rx":
                self.last = ['bs', a, None, rl, conv, 0, self.state(c)]
                c.bs(self.F(a), reflectivity=r)
                log.append(["bs", a, None, rl, conv, 0])
            else:
                self.last = ['bs', a, b, rl, conv, loss, self.state(c)]
                c.bs(self.F(a), self.F(b), r, loss, conv)
                log.append(["bs", a, b, rl, conv, loss])
        elif kind == "ps":
            m = int(rng.integers(n))
            phi, pl = self._maybe_param(pick_phase(rng))
            loss = 0
            if "loss" in self.allow and rng.random() < self.loss_p:
                loss = pick_unit(rng)
            self.last = ['ps', m, pl, loss, self.state(c)]
            c.ps(self.F(m), phi, loss)
            log.append(["ps", m, pl, loss])
        elif kind == "loss":
            m = int(rng.integers(n))
            l, ll = self._maybe_param(pick_unit(rng))
            self.last = ['loss', m, ll, self.state(c)]
            c.loss(self.F(m), l)
            log.append(["loss", m, ll])
        elif kind == "barrier":
            if rng.random() < 0.5:
                self.last = ['barrier', None, self.state(c)]
                c.barrier()
                log.append(["barrier", None])
            else:
                k = int(rng.integers(0, n + 1))          # k = 0: a barrier over no modes is constructible too
                modes = rng.choice(n, size=k, replace=False).tolist()
                if rng.random() < 0.5:
                    modes = sorted(modes)
                self.last = ['barrier', modes, self.state(c)]
                arg = [self.F(x) for x in modes]
                c.barrier(arg)
                arg.append(0)          # the caller's list is the caller's: changing it later must not matter
                arg.reverse()
                log.append(["barrier", modes])
        elif kind == "swaps":
            d = random_swaps(rng, n)
            self.last = ['swaps', d, self.state(c)]
            arg = {self.F(x): self.F(y) for x, y in d.items()}
            c.mode_swaps(arg)
            arg.clear()                # idem for the swap dictionary
            log.append(["swaps", d])
        elif kind == "unitary":
            k = int(rng.integers(1, min(n, 4) + 1))
            m = int(rng.integers(0, n - k + 1))
            seed = int(rng.integers(1 << 30))
            u = haar(np.random.default_rng(seed), k)
            r_kind = rng.random()
            if r_kind < 0.12:
                u = np.eye(k, dtype=int)[np.random.default_rng(seed).permutation(k)]      # integer permutation matrix
            elif r_kind < 0.24:
                q, r = np.linalg.qr(np.random.default_rng(seed).normal(size=(k, k)))
                u = q * np.sign(np.diag(r))                                               # real (float) orthogonal
            elif r_kind < 0.3:
                u = np.diag(np.exp(1j * np.random.default_rng(seed).uniform(0, 6.3, size=k)))
            elif r_kind < 0.42:
                # weakly coupled: a unitary within 1e-5 ... 1e-9 of a diagonal one (tiny but non-zero off-diagonal entries)
                from scipy.linalg import expm  # noqa: PLC0415
                g = np.random.default_rng(seed)
                h = g.normal(size=(k, k)) + 1j * g.normal(size=(k, k))
                eps = float(g.choice([3e-6, 1e-6, 1e-7, 1e-9]))
                u = expm(1j * eps * (h + h.conj().T)) @ np.diag(np.exp(1j * g.uniform(0, 6.3, size=k)))
            self.last = ['unitary', m, k, seed, self.state(c)]
            arr = np.array(u)
            if rng.random() < 0.2:
                un = self.lw.Unitary(arr, label=str(rng.choice(["U", "V", "a long label", "", "√X"])))
            else:
                un = self.lw.Unitary(arr)
            if rng.random() < 0.5:
                arr[...] = 0           # ... and for the array a Unitary was built from
            c.add(un, self.F(m))
            arr[...] = 1
            log.append(["unitary", m, k, seed])
        self._note_forms(log)
        return kind

    @staticmethod
    def state(c) -> dict:
        """Public state of the receiver just before a call (for witnesses)."""
        return {"n_modes": c.n_modes, "numbered": c.n_modes - len(c._internal_modes),
                "heralds_in": dict(c.heralds["input"]), "ancillas": sorted(c._internal_modes)}

    @staticmethod
    def numbered(c) -> int:
        return c.n_modes - len(c._internal_modes)

    def leaf(self, n, n_steps, log, heralds=0, herald_neq_p=0.5):
        c = self.lw.Circuit(self.F(n))      # the mode count, too, may be any integer-valued number
        log.append(["circuit", n])
        self._note_forms(log)
        for _ in range(n_steps):
            self.primitive(c, log, n)
        self.add_heralds(c, log, heralds, herald_neq_p)
        return c

    def add_heralds(self, c, log, k, neq_p=0.5, order="random"):
        """Declare up to k heralds on numbered modes of c, in random order."""
        rng = self.rng
        n = self.numbered(c)
        free_in = [m for m in range(n) if self._full(c, m) not in c.heralds["input"]]
        free_out = [m for m in range(n) if self._full(c, m) not in c.heralds["output"]]
        k = min(k, len(free_in) - 1, len(free_out) - 1)   # keep at least one visible mode
        if k <= 0:
            return
        ins = rng.choice(free_in, size=k, replace=False).tolist()
        if rng.random() < neq_p:
            outs = rng.choice(free_out, size=k, replace=False).tolist()
        else:
            outs = [m for m in ins if m in free_out]
            if len(outs) != k:
                outs = rng.choice(free_out, size=k, replace=False).tolist()
        if order == "ascending":
            ins = sorted(ins)
        elif order == "descending":
            ins = sorted(ins, reverse=True)
        for i, o in zip(ins, outs):
            nph = int(rng.integers(0, self.max_herald_photons + 1))
            if rng.random() < 0.5:
                nph = min(nph, 1)
            if i == o and rng.random() < 0.5:
                self.last = ['herald', nph, int(i), None, self.state(c)]
                c.herald(nph, self.F(int(i)))
                log.append(["herald", nph, int(i), None])
                self._note_forms(log)
            else:
                self.last = ['herald', nph, int(i), int(o), self.state(c)]
                c.herald(nph, self.F(int(i)), self.F(int(o)))
                log.append(["herald", nph, int(i), int(o)])
                self._note_forms(log)

    @staticmethod
    def _full(c, m):
        return c._map_mode(m)

    def tree(self, n, depth, log, *, max_children=3, steps=(0, 5), herald_p=0.6,
             group_p=0.5, gate_p=0.15, direct_heralds_p=0.15, plus_p=0.15):
        """A circuit with sub-circuits added at random legal placements."""
        rng = self.rng
        lw = self.lw
        if rng.random() < plus_p:
            # the + operator between herald-free circuits of equal size
            la, lb = [], []
            a = self.leaf(n, int(rng.integers(0, 4)), la)
            b = self.leaf(n, int(rng.integers(0, 4)), lb)
            self.last = ["plus", la, lb]
            c = a + b
            log.append(["plus", la, lb])
            if rng.random() < 0.3:
                self.last = ["plus", "self", "self"]
                c = c + c
                log.append(["plus_self"])
        else:
            c = lw.Circuit(self.F(n))
            log.append(["circuit", n])
            self._note_forms(log)
        n_children = int(rng.integers(1, max_children + 1)) if depth > 0 else 0
        actions = ["prim"] * int(rng.integers(steps[0], steps[1] + 1)) + ["child"] * n_children
        rng.shuffle(actions)
        for act in actions:
            nn = self.numbered(c)
            if act == "prim":
                self.primitive(c, log, nn)
                continue
            sub_log: list = []
            if rng.random() < gate_p and nn >= 2:
                child, cname = self.library_gate(nn)
                sub_log.append(["gate", cname])
            else:
                ck = int(rng.integers(1, min(nn, 4) + 1))           # visible size of the child
                nh = int(rng.integers(0, 3)) if rng.random() < herald_p else 0
                cn = ck + nh
                if depth > 1 and rng.random() < 0.5:
                    child = self.tree(cn, depth - 1, sub_log, max_children=2, steps=(0, 3),
                                      herald_p=herald_p, group_p=group_p, gate_p=gate_p,
                                      direct_heralds_p=0)
                    # heralds on the numbered modes of the sub-tree
                    self.add_heralds(child, sub_log, nh)
                else:
                    child = self.leaf(cn, int(rng.integers(0, 5)), sub_log, heralds=nh)
            k = child.input_modes
            if k > nn or k == 0:
                continue
            m = int(rng.integers(0, nn - k + 1))
            group = bool(rng.random() < group_p)
            if self.on_add is not None:
                self.on_add(c, child, m, group)
            if rng.random() < 0.08:
                # first a placement that does not fit (must be refused and leave no trace), then the legal one
                bad = nn - k + int(rng.integers(1, 3)) if rng.random() < 0.8 else -int(rng.integers(1, nn + 2)) - nn
                self.last = ['add_that_does_not_fit', sub_log, bad, group, self.state(c)]
                try:
                    c.add(child, bad, group)
                    log.append(["add_that_does_not_fit_was_accepted", sub_log, bad, group])
                except Exception as e:  # noqa: BLE001
                    log.append(["add_refused", bad, type(e).__name__])
                    self.refused_adds = getattr(self, "refused_adds", 0) + 1
            self.last = ['add', sub_log, m, group, self.state(c)]
            if rng.random() < 0.25:
                # the optional display name of the added circuit (shown on the group's box)
                nm = [None, "G", "a rather long name for a small box", "φ-gate", "", "U2"][int(rng.integers(6))]
                if rng.random() < 0.5:
                    c.add(child, self.F(m), group, nm)
                else:
                    c.add(child, self.F(m), group=group, name=nm)
            else:
                c.add(child, self.F(m), group)
            log.append(["add", sub_log, m, group])
            self._note_forms(log)
            if len(self.children) < 6:
                self.children.append((child, sub_log))
            if rng.random() < 0.12:
                # the very same child object once more, at another legal position
                nn2 = self.numbered(c)
                if k <= nn2:
                    m2 = int(rng.integers(0, nn2 - k + 1))
                    g2 = bool(rng.random() < group_p)
                    if self.on_add is not None:
                        self.on_add(c, child, m2, g2)
                    self.last = ['add_same_child_again', sub_log, m2, g2, self.state(c)]
                    c.add(child, self.F(m2), g2)
                    log.append(["add_same_child_again", m2, g2])
                    self._note_forms(log)
        if rng.random() < direct_heralds_p:
            self.add_heralds(c, log, int(rng.integers(1, 3)))
        return c

    def library_gate(self, nn):
        rng = self.rng
        q = self.lw.qubit
        opts = [("H", 2), ("X", 2), ("S", 2), ("T", 2)]
        if nn >= 4:
            opts += [("CZ", 4), ("CNOT", 4), ("CZ_Heralded", 4), ("CNOT_Heralded", 4), ("SWAP", 4)]
        if nn >= 6:
            opts += [("CCZ", 6), ("CCNOT", 6)]
        name, _k = opts[int(rng.integers(len(opts)))]
        if name == "SWAP":
            return q.SWAP((0, 1), (2, 3)), name
        if name in ("CNOT", "CNOT_Heralded") and rng.random() < 0.5:
            return getattr(q, name)(0), name + "(0)"
        return getattr(q, name)(), name


def as_callback(fn, rng):
    """The same callback in one of the forms a user may legally hand over (all are functions or methods): the function
    itself, a lambda, a closure, a bound instance method, a bound class method. Returns (callable, form name)."""
    form = str(rng.choice(["function", "lambda", "closure", "bound_method", "class_method"]))
    if form == "function":
        return fn, form
    if form == "lambda":
        return (lambda *a, **k: fn(*a, **k)), form
    if form == "closure":
        def outer():
            def inner(*a, **k):
                return fn(*a, **k)
            return inner
        return outer(), form

    class Lab:
        target = staticmethod(fn)

        def run(self, *a, **k):
            return fn(*a, **k)

        @classmethod
        def run_cls(cls, *a, **k):
            return cls.target(*a, **k)
    return (Lab().run, form) if form == "bound_method" else (Lab.run_cls, form)


def confusable_occupations(rng, k: int, how_many: int = 4) -> list:
    """Different occupation lists over k modes whose decimal digits, written one after the other, read the same
    (|1,20> / |12,0> / |120,...>): any key built by joining the numbers without a separator confuses them."""
    from itertools import combinations
    if k < 2:
        return []
    length = k + int(rng.integers(1, 4))
    digits = "".join(str(int(d)) for d in [rng.integers(1, 10)] + list(rng.integers(0, 10, size=length - 1)))
    splits = []
    for cuts in combinations(range(1, length), k - 1):
        parts = [digits[a:b] for a, b in zip((0,) + cuts, cuts + (length,))]
        if all(p == "0" or not p.startswith("0") for p in parts):
            splits.append([int(p) for p in parts])
    rng.shuffle(splits)
    return splits[:how_many]

