"""Imperfect-source reference (DESIGN 3.3), written as a *generative* model rather
than as the coefficient table the implementation uses:

  * each photon slot of the target input fires independently;
  * with probability p2 the source emits a pair (the intended photon plus one
    noise photon that is distinguishable from everything), otherwise a single
    intended photon; p2 is fixed by g2 = 2 p2 / (1 + p2)^2 = 1 - purity;
  * every emitted photon independently survives with probability `brightness`;
  * an intended photon is in the common (mutually indistinguishable) mode with
    probability sqrt(indistinguishability), otherwise it is distinguishable
    from everything else.

A configuration of emitted photons is a *partition* into mutually
distinguishable groups; the output distribution is the mixture over partitions
of the convolution of the independent boson-sampling distributions of the groups.
"""
from __future__ import annotations

import math
from itertools import product

from . import boson


def pair_probability(purity: float) -> float:
    """p2 with 2 p2/(1+p2)^2 = 1 - purity (root in [0,1))."""
    g2 = 1.0 - purity
    if g2 <= 0:
        return 0.0
    # g2 (1+x)^2 = 2x  ->  g2 x^2 + (2 g2 - 2) x + g2 = 0
    a, b, c = g2, 2 * g2 - 2, g2
    disc = b * b - 4 * a * c
    # the smaller root, in the form that does not subtract two nearly equal numbers (b < 0): 2c / (-b + sqrt(disc))
    return 2 * c / (-b + math.sqrt(disc))


def slot_outcomes(brightness: float, purity: float, indist: float):
    """[(probability, n_common, n_distinguishable)] for one photon slot."""
    nu = brightness
    p2 = pair_probability(purity)
    p1 = 1.0 - p2
    pi = math.sqrt(indist)
    out: dict = {}

    def add(p, common, dist):
        if p > 0:
            out[(common, dist)] = out.get((common, dist), 0.0) + p

    # single emission
    add(p1 * (1 - nu), 0, 0)
    add(p1 * nu * pi, 1, 0)
    add(p1 * nu * (1 - pi), 0, 1)
    # pair emission: intended photon survives or not, noise photon survives or not
    add(p2 * (1 - nu) * (1 - nu), 0, 0)
    add(p2 * nu * (1 - nu) * pi, 1, 0)
    add(p2 * nu * (1 - nu) * (1 - pi), 0, 1)
    add(p2 * (1 - nu) * nu, 0, 1)                 # only the noise photon survives
    add(p2 * nu * nu * pi, 1, 1)
    add(p2 * nu * nu * (1 - pi), 0, 2)
    return [(p, k[0], k[1]) for k, p in out.items()]


def partition_key(groups):
    """Canonical key of a partition: sorted tuple of group occupation vectors (empty groups dropped)."""
    return tuple(sorted(tuple(g) for g in groups if any(g)))


def input_statistics(occ, brightness, purity, indist, threshold=0.0) -> dict:
    """{partition_key: probability} for a target input occupation list."""
    n_modes = len(occ)
    slots = [m for m, n in enumerate(occ) for _ in range(n)]
    outs = slot_outcomes(brightness, purity, indist)
    stats: dict = {}
    for combo in product(outs, repeat=len(slots)):
        p = 1.0
        common = [0] * n_modes
        singles = []
        for (pp, nc, nd), m in zip(combo, slots):
            p *= pp
            common[m] += nc
            for _ in range(nd):
                v = [0] * n_modes
                v[m] = 1
                singles.append(v)
        if p == 0:
            continue
        key = partition_key([common] + singles)
        stats[key] = stats.get(key, 0.0) + p
    if threshold:
        kept = {k: p for k, p in stats.items() if p >= threshold}
        tot = sum(kept.values())
        stats = {k: p / tot for k, p in kept.items()}
    return stats


def output_distribution(u_full, n_real, stats: dict) -> dict:
    """Mixture over partitions of the convolution of per-group distributions."""
    cache: dict = {}

    def gdist(g):
        if g not in cache:
            cache[g] = boson.distribution(u_full, n_real, list(g))
        return cache[g]

    out: dict = {}
    vac = tuple([0] * n_real)
    n_tot = u_full.shape[0]
    allowance = 0.0
    for key, p in stats.items():
        d = {vac: 1.0}
        for g in key:
            d = boson.convolve(d, gdist(g))
            # the backends drop full output states with conditional probability <= 1e-9 (and, for lossy circuits,
            # may move that mass to the vacuum): per group at most 1e-9 x (number of full patterns), weighted by p
            allowance += p * 1e-9 * boson.n_fock(n_tot, sum(g))
        for k, q in d.items():
            out[k] = out.get(k, 0.0) + p * q
    output_distribution.last_allowance = allowance
    return out


output_distribution.last_allowance = 0.0


def annotated_to_key(state, n_modes=None):
    """Partition key of a lightworks State / AnnotatedState (labels are irrelevant)."""
    s = state.s
    if s and isinstance(s[0], list) or (not s):
        labels: dict = {}
        for m, labs in enumerate(s):
            for lab in labs:
                labels.setdefault(lab, [0] * len(s))[m] += 1
        return partition_key(labels.values())
    return partition_key([list(s)])
