"""Argument-immutability monitor (C08): a generic wrapper on public entry points
that fingerprints every Circuit / State / Parameter / PostSelection / ndarray /
list / dict argument (and the receiver, for non-mutating calls) before the call
and compares after return *and after raise*. An argument identical to the
receiver of a mutating call is exempt (it is covered by the receiver's shadow)."""
from __future__ import annotations

import functools

import numpy as np

from . import circmon
from .circmon import STATS, report

_installed = False
_depth = 0


def fingerprint(x, depth=0):
    C, P = circmon.Circuit, circmon.Parameter
    if C is not None and isinstance(x, C):
        return ("Circuit", circmon.circuit_fingerprint(x, with_unitary=True))
    tn = type(x).__name__
    if tn in ("State", "AnnotatedState"):
        return (tn, repr(x.s))
    if P is not None and isinstance(x, P):
        return ("Parameter", repr(x.get()), repr(x.min_bound), repr(x.max_bound), x.label)
    if tn == "PostSelection":
        return ("PostSelection", tuple(r.as_tuple() for r in x.rules), x.multi_rules)
    if isinstance(x, np.ndarray):
        return ("ndarray", x.shape, str(x.dtype), x.tobytes())
    if depth < 3:
        if isinstance(x, (list, tuple)):
            return (tn, tuple(fingerprint(v, depth + 1) for v in x))
        if isinstance(x, dict):
            return ("dict", tuple((repr(k) if not hasattr(k, "s") else fingerprint(k, depth + 1),
                                   fingerprint(v, depth + 1)) for k, v in x.items()))
    if tn in ("Sampler", "QuickSampler", "Analyzer", "Simulator"):
        if not hasattr(x, "_" + tn + "__circuit"):
            return ("opaque", tn)          # inside __init__: nothing assigned yet
        return (tn, fingerprint(x.circuit, depth + 1),
                fingerprint(x.input_state, depth + 1) if hasattr(x, "_" + tn + "__input_state") else None)
    if isinstance(x, (int, float, complex, str, bool)) or x is None:
        return ("v", repr(x))
    return ("opaque", tn)


def describe(x):
    C = circmon.Circuit
    if C is not None and isinstance(x, C):
        return circmon.observable_state(x)
    return repr(x)[:200]


def wrap(owner, name, label, mutator=False, is_function=False):
    orig = owner.__dict__[name] if not is_function else getattr(owner, name)

    @functools.wraps(orig)
    def w(*a, **k):
        global _depth
        if _depth > 0:
            return orig(*a, **k)
        items = []
        args = list(a)
        recv = None
        if not is_function and args:
            recv = args[0]
            rest = args[1:]
            if not mutator:
                items.append(("self", recv))
        else:
            rest = args
        for i, v in enumerate(rest):
            if mutator and v is recv:
                STATS["arg_receiver_alias_exempt"] += 1
                continue
            items.append((f"arg{i}", v))
        for kk, v in k.items():
            if mutator and v is recv:
                continue
            items.append((kk, v))
        before = [(n, v, fingerprint(v)) for n, v in items]
        _depth += 1
        try:
            res = orig(*a, **k)
            raised = None
        except BaseException as e:
            res, raised = None, e
        finally:
            _depth -= 1
        STATS["arg_checks"] += 1
        STATS["arg_checks:" + label] += 1
        for n, v, fp in before:
            if fp[0] in ("v", "opaque"):
                continue
            STATS["arg_fingerprints_compared"] += 1
            if fingerprint(v) != fp:
                report("C08", f"{label}: {n} ({fp[0]}) changed during the call"
                              + (f" (which raised {type(raised).__name__})" if raised else ""),
                       monitor="argument immutability", mechanism=f"argument_changed:{label}",
                       witness={"now": describe(v)})
        if raised is not None:
            raise raised
        return res

    w.__lwverif_wrapped__ = True
    setattr(owner, name, w)
    return orig, w


def install():
    """Wrap the public entry points listed in DESIGN 4 C08."""
    global _installed
    if _installed:
        return
    import sys

    import lightworks as lw
    from lightworks import emulator as emu
    C = lw.Circuit
    for nme in ("add",):
        wrap(C, nme, "Circuit." + nme, mutator=True)
    for nme in ("__add__", "copy", "get_all_params", "display"):
        wrap(C, nme, "Circuit." + nme)
    for cls in (emu.Simulator, emu.Sampler, emu.QuickSampler, emu.Analyzer):
        wrap(cls, "__init__", cls.__name__ + ".__init__")
    wrap(emu.Simulator, "simulate", "Simulator.simulate")
    wrap(emu.Analyzer, "analyze", "Analyzer.analyze")
    for nme in ("sample", "sample_N_inputs", "sample_N_outputs"):
        wrap(emu.Sampler, nme, "Sampler." + nme)
    for nme in ("sample", "sample_N_outputs"):
        wrap(emu.QuickSampler, nme, "QuickSampler." + nme)
    wrap(lw.interferometers.Reck, "map", "Reck.map")
    tomo = lw.tomography
    wrap(tomo.StateTomography, "__init__", "StateTomography.__init__")
    wrap(tomo.StateTomography, "process", "StateTomography.process")
    wrap(tomo.LIProcessTomography, "process", "LIProcessTomography.process")
    wrap(tomo.MLEProcessTomography, "process", "MLEProcessTomography.process")
    wrap(tomo.GateFidelity, "process", "GateFidelity.process")
    # module-level function Display: rebind in every namespace that holds the original
    import lightworks.sdk.visualisation.display as dmod
    orig, w = wrap(dmod, "Display", "Display", is_function=True)
    n = 0
    for m in list(sys.modules.values()):
        if m is None or not getattr(m, "__name__", "").startswith("lightworks"):
            continue
        for attr, val in list(vars(m).items()):
            if val is orig:
                setattr(m, attr, w)
                n += 1
    STATS["display_rebound_namespaces"] += n
    from lightworks.qubit.converter import qiskit_convert as qmod
    if hasattr(qmod, "qiskit_converter"):
        orig, w = wrap(qmod, "qiskit_converter", "qiskit_converter", is_function=True)
        for m in list(sys.modules.values()):
            if m is None or not getattr(m, "__name__", "").startswith("lightworks"):
                continue
            for attr, val in list(vars(m).items()):
                if val is orig:
                    setattr(m, attr, w)
    _installed = True


def shared_instances():
    """The module-level shared circuits that library code adds to user circuits."""
    from lightworks.qubit.converter import qiskit_convert as qmod
    from lightworks.tomography import mappings as mp
    out = {}
    for k, v in qmod.SINGLE_QUBIT_GATES_MAP.items():
        out["SINGLE_QUBIT_GATES_MAP[" + k + "]"] = v
    for k, v in mp.MEASUREMENT_MAPPING.items():
        out["MEASUREMENT_MAPPING[" + k + "]"] = v
    for k, v in mp.INPUT_MAPPING.items():
        out["INPUT_MAPPING[" + k + "].circuit"] = v[1]
        out["INPUT_MAPPING[" + k + "].state"] = v[0]
    out["r_transform"] = mp.r_transform
    out["_y_measure"] = mp._y_measure
    return out
