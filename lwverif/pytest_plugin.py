"""pytest plugin: runs the repository's own tests with every boundary monitor
installed (DESIGN 2.4 item 2). The tests are a workload, the monitors are the
oracle; test outcomes are not part of any verdict. Each xdist worker writes what
its monitors observed to $LWVERIF_PLUGIN_OUT/<pid>.json."""
from __future__ import annotations

import gc
import json
import os
import sys

from lwverif import core

core.use_repo()
from lwverif import circmon  # noqa: E402

circmon.install_on_import()
import lightworks as lw  # noqa: E402

if not circmon._installed:
    circmon.install()
from lwverif import argmon, emumon, twinmon  # noqa: E402
from lwverif.checks import c09, c10, c12, c13, c14, c17, c18, c19  # noqa: E402

_only = set(filter(None, os.environ.get("LWVERIF_PLUGIN_MONITORS", "").split(",")))


def _want(name):
    return not _only or name in _only


if _want("emu"):
    emumon.install()
if _want("arg"):
    argmon.install()
if _want("twin"):
    twinmon.install()
if _want("rewrite"):
    c09.install_rewrite_monitors(circmon.Circuit)
if _want("param"):
    c10.install_param_monitors(lw)
if _want("converter"):
    c12.install(lw)
if _want("gates"):
    c13.install_gate_monitors(lw)
if _want("reck"):
    c14.install(lw)
if _want("results"):
    c17.install(lw)
if _want("state"):
    c18.install(lw)
if _want("display"):
    c19.install(lw)

OBS: list = []
import atexit  # noqa: E402
_current = [""]


def pytest_runtest_setup(item):
    _current[0] = item.nodeid


def pytest_runtest_teardown(item):
    # quiescent point: compare every live circuit with its shadow; verify state snapshots
    try:
        live = [o for o in gc.get_objects() if isinstance(o, circmon.Circuit)][:60]
        for c in live:
            status, problems = circmon.compare(c)
            for kind, detail in problems:
                prop = {"unitarity": "C01", "shape": "C01", "compile": "C02", "frame": "C02", "amp": "C02",
                        "invalid_not_raised": "C10"}[kind]
                sh = circmon.shadow_of(c)
                circmon.report(prop, f"{kind}: {detail}", monitor="shadow comparison at test teardown",
                               mechanism="repotest_" + kind, witness={"events": sh.events if sh else None})
    except Exception as e:  # noqa: BLE001
        circmon.STATS["plugin_compare_error:" + type(e).__name__] += 1
    if _want("state"):
        class _Ctx:
            def violation(self, what, case=None, mechanism=None, monitor=None, witness=None):
                circmon.report("C18", what, monitor=monitor, mechanism=mechanism)
        try:
            c18.verify_all(_Ctx(), {"op": "repotest"})
        except Exception as e:  # noqa: BLE001
            circmon.STATS["plugin_state_error:" + type(e).__name__] += 1
    for ob in circmon.drain():
        ob["test"] = _current[0]
        OBS.append(ob)


def pytest_sessionfinish(session):
    out = os.environ.get("LWVERIF_PLUGIN_OUT")
    if not out:
        return
    os.makedirs(out, exist_ok=True)
    for ob in circmon.drain():
        ob["test"] = "session-end"
        OBS.append(ob)
    with open(os.path.join(out, f"{os.getpid()}.json"), "w") as f:
        json.dump({"stats": dict(circmon.STATS), "observations": core.jsonable(OBS)}, f)
