"""Setup-time self check of the reference oracles (no lightworks involved)."""
import sys

import numpy as np

from . import boson


def main() -> int:
    rng = np.random.default_rng(0)
    for n in range(0, 8):
        a = rng.normal(size=(n, n)) + 1j * rng.normal(size=(n, n))
        p1, p2 = boson.perm(a), boson.perm_ryser(a)
        if abs(p1 - p2) > 1e-8 * max(1.0, abs(p2)):
            print("selfcheck: permanent implementations disagree", n, p1, p2)
            return 1
    if len(boson.fock(4, 3)) != boson.n_fock(4, 3):
        return 1
    print("lwverif selfcheck ok")
    return 0


if __name__ == "__main__":
    sys.exit(main())
