"""Setup-time self check of the reference oracles (no lightworks involved)."""
import sys

import numpy as np

from . import boson


def main() -> int:
    rng = np.random.default_rng(0)
    for n in range(0, 8):
        a = rng.normal(size=(n, n)) + 1j * rng.normal(size=(n, n))
        p1, p2 = boson.perm(a), boson.perm_ryser(a)
        if abs(p1 - p2) > 1e-8 * max(1.0, abs(p2)):
            print("selfcheck: permanent implementations disagree", n, p1, p2)
            return 1
    if len(boson.fock(4, 3)) != boson.n_fock(4, 3):
        return 1
    # the polynomial-expansion amplitudes against the permanent-based ones, and their normalisation for many photons
    from scipy.stats import unitary_group
    for m, occ in ((3, [2, 1, 0]), (2, [3, 3]), (4, [1, 2, 0, 2]), (3, [0, 5, 1])):
        u = unitary_group.rvs(m, random_state=7) if m > 1 else np.eye(1)
        table = boson.amplitudes_poly(u, occ)
        if set(table) != set(boson.fock(m, sum(occ))):
            print("selfcheck: polynomial reference misses output patterns")
            return 1
        for out, a in table.items():
            if abs(a - boson.amplitude(u, occ, list(out))) > 1e-10:
                print("selfcheck: polynomial and permanent amplitudes disagree", occ, out)
                return 1
    for occ in ([13, 13], [21, 0], [9, 9, 9]):
        u = unitary_group.rvs(len(occ), random_state=3)
        tot = sum(abs(a) ** 2 for a in boson.amplitudes_poly(u, occ).values())
        if abs(tot - 1) > 1e-8:
            print("selfcheck: polynomial reference not normalised for", occ, tot)
            return 1
    print("lwverif selfcheck ok")
    return 0


if __name__ == "__main__":
    sys.exit(main())
