"""Runner infrastructure: sharded worker subprocesses, counters, verdicts, evidence.

Every check is a module ``lwverif.checks.cNN`` exposing

    PROPERTY   = "CNN"
    RULE       = "<how cases are generated and what counts as non-trivial>"
    MANDATORY  = [bucket names that must be reached for a 'held' verdict]
    DECIDING   = [counter names of the deciding monitors; zero => inconclusive]
    BUDGET     = {"quick": seconds per worker, "thorough": seconds per worker}
    def run(ctx): ...          # executes a shard of the workload under the monitors

The main process (``python -m lwverif run CNN``) starts one worker subprocess
per shard with a wall-clock watchdog, aggregates what the monitors observed,
classifies violations against ``known_findings.json`` and writes the evidence.
"""
from __future__ import annotations

import hashlib
import importlib
import json
import os
import subprocess
import sys
import time
import traceback
import zlib
from collections import Counter
from pathlib import Path

import numpy as np

ROOT = Path(__file__).resolve().parent.parent
_OUT = Path(os.environ["LWVERIF_OUT"]) if os.environ.get("LWVERIF_OUT") else ROOT
EVIDENCE = _OUT / "evidence"       # LWVERIF_OUT redirects evidence/replays (mutant validation only)
REPLAYS = _OUT / "replays"
KNOWN = ROOT / "known_findings.json"

EXIT_OK, EXIT_VIOLATION, EXIT_INCONCLUSIVE = 0, 1, 2


def repo_path() -> str:
    return os.environ.get("LWVERIF_REPO", "/repo")


def use_repo() -> None:
    """Make ``import lightworks`` resolve to the working tree under test."""
    p = repo_path()
    if sys.path[0] != p:
        sys.path.insert(0, p)
    os.environ.setdefault("LIGHTWORKS_VERIF", "1")
    os.environ.setdefault("MPLBACKEND", "Agg")


def jsonable(x):
    """Best-effort conversion of a case description to JSON."""
    if isinstance(x, dict):
        return {str(k): jsonable(v) for k, v in x.items()}
    if isinstance(x, (list, tuple, set, frozenset)):
        return [jsonable(v) for v in x]
    if isinstance(x, np.ndarray):
        if np.iscomplexobj(x):
            return {"re": np.round(x.real, 12).tolist(), "im": np.round(x.imag, 12).tolist()}
        return x.tolist()
    if isinstance(x, (np.integer,)):
        return int(x)
    if isinstance(x, (np.floating,)):
        return float(x)
    if isinstance(x, complex):
        return {"re": x.real, "im": x.imag}
    if isinstance(x, (str, int, float, bool)) or x is None:
        return x
    return repr(x)


class Ctx:
    """Per-worker context: seeded RNG, what the monitors observed, violations."""

    def __init__(self, prop: str, tier: str, seed: int, shard: int, nshards: int, budget: float):
        self.prop, self.tier, self.seed = prop, tier, seed
        self.shard, self.nshards = shard, nshards
        self.budget = budget
        self.t0 = time.monotonic()
        self.ss = np.random.SeedSequence([seed, shard, zlib.crc32(prop.encode())])
        self.rng = np.random.default_rng(self.ss)
        self.counters: Counter = Counter()
        self.buckets: Counter = Counter()
        self.keys: set[str] = set()
        self.samples: list = []
        self.violations: list[dict] = []
        self.evaluations = 0
        self.notes: list[str] = []
        self.case_index = -1

    # -- time
    def time_left(self) -> float:
        return self.budget - (time.monotonic() - self.t0)

    def out_of_time(self) -> bool:
        return self.time_left() <= 0

    # -- observation bookkeeping
    def count(self, name: str, n: int = 1) -> None:
        self.counters[name] += n

    def bucket(self, name: str, n: int = 1) -> None:
        self.buckets[name] += n

    def case(self, key, nontrivial: bool, sample=None) -> None:
        """Register one explored case; ``key`` is its canonical description."""
        self.evaluations += 1
        self.case_index += 1
        if nontrivial:
            h = hashlib.blake2b(repr(key).encode(), digest_size=8).hexdigest()
            self.keys.add(h)
        if sample is not None and len(self.samples) < 3:
            self.samples.append(jsonable(sample))

    def violation(self, what: str, case=None, witness=None, mechanism: str | None = None,
                  monitor: str | None = None) -> None:
        """Record a refuting observation. ``mechanism`` is the classifier key used
        to match ``known_findings.json`` (by mechanism, never by case)."""
        self.counters["violations_seen"] += 1
        if len(self.violations) >= 40:
            # keep the first ones of each mechanism, but always count
            if sum(1 for v in self.violations if v["mechanism"] == mechanism) >= 3:
                return
        self.violations.append({
            "property": self.prop, "what": what, "mechanism": mechanism,
            "monitor": monitor, "tier": self.tier, "seed": self.seed,
            "shard": self.shard, "case_index": self.case_index,
            "case": jsonable(case), "witness": jsonable(witness),
        })

    def dump(self) -> dict:
        return {
            "shard": self.shard, "evaluations": self.evaluations,
            "counters": dict(self.counters), "buckets": dict(self.buckets),
            "keys": sorted(self.keys), "samples": self.samples,
            "violations": self.violations, "notes": self.notes,
            "wall_s": time.monotonic() - self.t0,
        }


def load_check(prop: str):
    return importlib.import_module(f"lwverif.checks.{prop.lower()}")


def anchored_files(prop: str) -> list[str]:
    for line in (ROOT / "properties.jsonl").read_text().splitlines():
        d = json.loads(line)
        if d["id"] == prop:
            return [os.path.join(repo_path(), f) for f in d["anchors"]["files"]]
    return []


def executable_lines(path: str) -> set[int]:
    try:
        code = compile(Path(path).read_text(), path, "exec")
    except Exception:  # noqa: BLE001
        return set()
    out, stack = set(), [code]
    while stack:
        c = stack.pop()
        out.update(l for _s, _e, l in c.co_lines() if l is not None and l > 0)
        stack.extend(k for k in c.co_consts if hasattr(k, "co_lines"))
    return out


class LineCoverage:
    """sys.monitoring LINE events restricted to the files the property is anchored in; every location is
    DISABLEd after its first hit, so the cost is one callback per line of code ever reached. The result is
    evidence of what the workload reached - it never decides a verdict."""

    def __init__(self, files):
        self.files = set(files)
        self.hits: dict[str, set] = {f: set() for f in files}
        self.on = False

    def start(self):
        mon = getattr(sys, "monitoring", None)
        if mon is None or not self.files:
            return
        try:
            mon.use_tool_id(mon.COVERAGE_ID, "lwverif")
        except ValueError:
            return
        files, hits, disable = self.files, self.hits, mon.DISABLE

        def on_line(code, line):
            f = code.co_filename
            if f in files:
                hits[f].add(line)
            return disable

        mon.register_callback(mon.COVERAGE_ID, mon.events.LINE, on_line)
        mon.set_events(mon.COVERAGE_ID, mon.events.LINE)
        self.on = True

    def stop(self) -> dict:
        if self.on:
            mon = sys.monitoring
            mon.set_events(mon.COVERAGE_ID, 0)
            mon.free_tool_id(mon.COVERAGE_ID)
        return {f: sorted(v) for f, v in self.hits.items()}


def worker_main(prop: str, tier: str, seed: int, shard: int, nshards: int, out: str) -> int:
    use_repo()
    mod = load_check(prop)
    cov = LineCoverage(anchored_files(prop))
    cov.start()
    budget = float(os.environ.get("LWVERIF_BUDGET", mod.BUDGET[tier]))
    ctx = Ctx(prop, tier, seed, shard, nshards, budget)
    status = "ok"
    try:
        mod.run(ctx)
    except BaseException as e:  # harness error: inconclusive for this shard, never a violation
        status = "error"
        ctx.notes.append("worker error: " + "".join(traceback.format_exception(e))[-4000:])
    d = ctx.dump()
    d["status"] = status
    d["lines"] = cov.stop()
    Path(out).write_text(json.dumps(d))
    return 0


def run_repo_tests(prop: str, work: Path) -> dict:
    """Extra workload (DESIGN 2.4 item 2): the repository's own tests re-run with every monitor
    installed. Returns the monitors' observations for ``prop`` and their event counters.
    Test outcomes are not part of any verdict."""
    out = work / "plugin"
    env = dict(os.environ)
    env["PYTHONPATH"] = str(ROOT) + os.pathsep + env.get("PYTHONPATH", "")
    env.update(LWVERIF_PLUGIN_OUT=str(out), MPLBACKEND="Agg", LIGHTWORKS_VERIF="1")
    repo = repo_path()
    t0 = time.monotonic()
    try:
        p = subprocess.run([sys.executable, "-m", "pytest", "-q", "-p", "no:cacheprovider", "-p",
                            "lwverif.pytest_plugin", "-n", "12", "--timeout=900", os.path.join(repo, "tests")],
                           cwd=repo, env=env, capture_output=True, text=True, timeout=1800)
        tail = p.stdout.strip().splitlines()[-1] if p.stdout.strip() else ""
    except subprocess.TimeoutExpired:
        tail = "timeout"
    stats, obs = Counter(), []
    for f in out.glob("*.json"):
        d = json.loads(f.read_text())
        stats.update(d["stats"])
        obs.extend(o for o in d["observations"] if o["prop"] == prop)
        f.unlink()
    if out.exists():
        out.rmdir()
    docs = {"files": 0, "blocks_ok": 0, "blocks_raised": 0}
    if os.environ.get("LWVERIF_DOCS", "1") != "0":
        try:
            from . import docsrun  # noqa: PLC0415
            r = docsrun.run_all(str(work / "docs"), repo)
            docs["files"] = r["files"]
            for d in r["results"]:
                docs["blocks_ok"] += d.get("blocks_ok", 0)
                docs["blocks_raised"] += d.get("blocks_raised", 0)
                stats.update(d.get("stats", {}))
                obs.extend(o for o in d.get("observations", []) if o["prop"] == prop)
            dd = work / "docs"
            if dd.exists():
                for f in dd.glob("*"):
                    f.unlink()
                dd.rmdir()
        except Exception as e:  # noqa: BLE001
            docs["error"] = repr(e)
    return {"pytest_summary": tail, "wall_s": round(time.monotonic() - t0, 1), "stats": dict(stats),
            "observations": obs, "docs": docs}


def load_known() -> list[dict]:
    if KNOWN.exists():
        return json.loads(KNOWN.read_text()).get("findings", [])
    return []


def main_run(prop: str, tier: str, seed: int, replay: str | None = None) -> int:
    t0 = time.monotonic()
    mod = load_check(prop)
    nshards = int(os.environ.get("LWVERIF_SHARDS", getattr(mod, "SHARDS", {}).get(tier, 16)))
    budget = float(os.environ.get("LWVERIF_BUDGET", mod.BUDGET[tier]))
    watchdog = budget * 4 + 120
    work = ROOT / ".work" / f"{prop}-{os.getpid()}"
    work.mkdir(parents=True, exist_ok=True)
    env = dict(os.environ)
    env["PYTHONPATH"] = str(ROOT) + os.pathsep + env.get("PYTHONPATH", "")
    env.setdefault("PYTHONHASHSEED", str(seed % 4294967295))
    env.setdefault("MPLBACKEND", "Agg")
    env.setdefault("OMP_NUM_THREADS", "1")
    env.setdefault("OPENBLAS_NUM_THREADS", "1")
    env.setdefault("MKL_NUM_THREADS", "1")
    env.setdefault("NUMBA_NUM_THREADS", "1")
    env["LIGHTWORKS_VERIF"] = "1"
    procs = []
    only = os.environ.get("LWVERIF_ONLY_SHARD")
    shard_ids = [int(only)] if only is not None else list(range(nshards))
    for sh in shard_ids:
        out = work / f"shard{sh}.json"
        cmd = [sys.executable, "-m", "lwverif", "worker", prop, "--tier", tier,
               "--seed", str(seed), "--shard", str(sh), "--nshards", str(nshards),
               "--out", str(out)]
        if replay:
            cmd += ["--replay", replay]
        wenv = dict(env)
        if "PYTHONHASHSEED" not in os.environ:
            # every shard gets its own hash seed (set iteration order reaches the tomography and result code)
            wenv["PYTHONHASHSEED"] = str((seed * 64 + sh) % 4294967295)
        procs.append((sh, out, subprocess.Popen(cmd, env=wenv, cwd=str(ROOT),
                                                stdout=subprocess.DEVNULL,
                                                stderr=subprocess.PIPE)))
    results, failed = [], []
    deadline = time.monotonic() + watchdog
    for sh, out, p in procs:
        try:
            _, err = p.communicate(timeout=max(1.0, deadline - time.monotonic()))
        except subprocess.TimeoutExpired:
            p.kill()
            p.communicate()
            failed.append((sh, "watchdog"))
            continue
        if out.exists():
            d = json.loads(out.read_text())
            if d.get("status") != "ok":
                failed.append((sh, (d.get("notes") or ["error"])[-1][-1500:]))
            results.append(d)
        else:
            failed.append((sh, "no output: " + (err or b"").decode(errors="replace")[-1500:]))
    repotests = None
    if (tier == "thorough" or os.environ.get("LWVERIF_REPOTESTS") == "1") and only is None \
            and os.environ.get("LWVERIF_REPOTESTS") != "0":
        repotests = run_repo_tests(prop, work)
    for f in work.glob("*"):
        f.unlink()
    work.rmdir()

    line_hits: dict[str, set] = {}
    for d in results:
        for f, ls in d.get("lines", {}).items():
            line_hits.setdefault(f, set()).update(ls)
    coverage_of_anchors = {}
    for f, ls in sorted(line_hits.items()):
        ex = executable_lines(f)
        coverage_of_anchors[os.path.relpath(f, repo_path())] = {
            "executable_lines": len(ex), "lines_reached": len(ls & ex) if ex else len(ls),
            "not_reached": sorted(ex - ls)[:400]}
    counters, buckets, keys = Counter(), Counter(), set()
    samples, violations, evaluations = [], [], 0
    for d in results:
        counters.update(d["counters"])
        buckets.update(d["buckets"])
        keys.update(d["keys"])
        evaluations += d["evaluations"]
        for s in d["samples"]:
            if len(samples) < 4:
                samples.append(s)
        violations.extend(d["violations"])

    if repotests is not None:
        counters["repotests.monitor_events"] = sum(v for k, v in repotests["stats"].items()
                                                    if "postcond" in k or k in ("cmp", "arg_checks", "events"))
        for ob in repotests["observations"]:
            violations.append({"property": prop, "what": "[repository tests under monitors] " + ob["what"],
                               "mechanism": ob["mechanism"], "monitor": ob["monitor"], "tier": tier, "seed": seed,
                               "shard": -1, "case_index": -1, "case": {"test": ob.get("test")},
                               "witness": ob.get("witness")})
    # classify violations against known findings (by mechanism)
    known = [k for k in load_known() if k.get("property") == prop and k.get("status") == "known"]
    known_mech = {k["mechanism"]: k for k in known}
    new_viol = [v for v in violations if v["mechanism"] not in known_mech]
    seen_known = sorted({v["mechanism"] for v in violations if v["mechanism"] in known_mech})

    inconclusive = []
    if len(failed) > 0.1 * len(shard_ids):
        inconclusive.append(f"{len(failed)} of {nshards} shards did not complete: "
                            + "; ".join(f"{s}:{m[:300]}" for s, m in failed[:3]))
    for name in getattr(mod, "DECIDING", []):
        if counters.get(name, 0) == 0:
            inconclusive.append(f"deciding monitor '{name}' observed nothing")
    for name in getattr(mod, "MANDATORY", []):
        if buckets.get(name, 0) == 0:
            inconclusive.append(f"mandatory bucket '{name}' never reached")
    if evaluations == 0:
        inconclusive.append("no cases evaluated")
    mon_err = sum(v for k, v in counters.items() if "monitor_error:" in k or k.endswith("shadow_model_errors"))
    decided = sum(counters.get(name, 0) for name in getattr(mod, "DECIDING", []))
    if mon_err > 0.05 * max(decided, 1):
        # monitors that could not evaluate what they were shown count, they never judge - but a run in which that
        # happened for more than 5 % of the deciding observations has not decided much
        inconclusive.append(f"{mon_err} monitor evaluations failed (deciding observations: {decided}): "
                            + ", ".join(f"{k}={v}" for k, v in sorted(counters.items()) if "monitor_error:" in k)[:300])
    if counters.get("mon.cmp_tainted", 0) > max(counters.get("mon.cmp", 0), 1):
        # the shadow monitor stood down for most circuits (private state written from outside the API): what it did
        # not compare it cannot vouch for
        inconclusive.append(f"{counters['mon.cmp_tainted']} shadow comparisons skipped as tainted against "
                            f"{counters.get('mon.cmp', 0)} made")

    wall = time.monotonic() - t0
    EVIDENCE.mkdir(parents=True, exist_ok=True)
    ev = {
        "property_id": prop, "tier": tier, "seed": seed,
        "level": getattr(mod, "LEVEL", "exploration"),
        "coverage": {
            "evaluations": evaluations,
            "distinct_nontrivial": len(keys),
            "rule": mod.RULE,
            "samples": samples or [{"note": "no sample recorded"}],
            "exhaustive": bool(getattr(mod, "EXHAUSTIVE", False)),
            "monitor_events": dict(sorted(counters.items())),
            "buckets": dict(sorted(buckets.items())),
            "mandatory_buckets": list(getattr(mod, "MANDATORY", [])),
            "deciding_monitors": list(getattr(mod, "DECIDING", [])),
            "shards": nshards, "shards_failed": [list(f) for f in failed],
            "known_findings_seen": seen_known,
            "anchored_code_reached": coverage_of_anchors,
            "repository_tests_under_monitors": None if repotests is None else {
                "pytest_summary": repotests["pytest_summary"], "wall_s": repotests["wall_s"],
                "documentation_examples": repotests.get("docs"),
                "observations_for_this_property": len(repotests["observations"]),
                "monitor_events": {k: v for k, v in sorted(repotests["stats"].items())
                                   if "postcond" in k or k in ("cmp", "cmp_amplitudes", "arg_checks", "events",
                                                               "twin_distribution_reads", "twin_sampling_calls",
                                                               "param_invariant_checks", "dist_value_checks")}},
            "verdict": ("violated" if new_viol else "inconclusive" if inconclusive else "held"),
            "inconclusive_reasons": inconclusive,
        },
        "assumptions": list(getattr(mod, "ASSUMPTIONS", [])),
        "wall_s": round(wall, 3),
        "violations": len(new_viol),
    }
    (EVIDENCE / f"{prop}.json").write_text(json.dumps(ev, indent=1))

    print(f"[{prop}] tier={tier} seed={seed} evaluations={evaluations} "
          f"distinct_nontrivial={len(keys)} wall={wall:.1f}s")
    print(f"[{prop}] monitors: " + ", ".join(f"{k}={v}" for k, v in sorted(counters.items())))
    print(f"[{prop}] buckets: " + ", ".join(f"{k}={v}" for k, v in sorted(buckets.items())))
    for m in seen_known:
        print(f"KNOWN-FINDING: property={prop} {known_mech[m]['description']}")
    if new_viol:
        REPLAYS.mkdir(parents=True, exist_ok=True)
        by_mech: dict = {}
        for v in new_viol:
            by_mech.setdefault(v["mechanism"], []).append(v)
        for mech, vs in by_mech.items():
            tag = hashlib.blake2b(repr((mech, vs[0]["what"])).encode(), digest_size=4).hexdigest()
            path = REPLAYS / f"{prop}-{tier}-{seed}-{tag}.json"
            path.write_text(json.dumps({"property": prop, "mechanism": mech,
                                        "count": len(vs), "violations": vs[:5]}, indent=1))
            print(f"[{prop}] violated ({len(vs)}x, mechanism={mech}): {vs[0]['what'][:400]}")
            print(f"VIOLATION property={prop} replay={path}")
        return EXIT_VIOLATION
    if inconclusive:
        for r in inconclusive:
            print(f"INCONCLUSIVE property={prop}: {r}")
        return EXIT_INCONCLUSIVE
    print(f"[{prop}] held on everything observed")
    return EXIT_OK
