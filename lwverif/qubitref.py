"""Dual-rail / qubit references (DESIGN 3.5): basis maps, textbook gate matrices,
amplitude matrices of photonic circuits restricted to the dual-rail subspace."""
from __future__ import annotations

import cmath
import math
from itertools import product

import numpy as np

from . import boson

SQ2 = math.sqrt(2)


def dual_rail(bits) -> list:
    occ = []
    for b in bits:
        occ += [1, 0] if b == 0 else [0, 1]
    return occ


def basis(n):
    return list(product((0, 1), repeat=n))     # first qubit most significant


def textbook(name, *args):
    i = 1j
    args = tuple(float(a) if isinstance(a, (np.integer, np.floating)) else a for a in args)   # the angle as a plain float
    if name == "I": return np.eye(2, dtype=complex)
    if name == "H": return np.array([[1, 1], [1, -1]], dtype=complex) / SQ2
    if name == "X": return np.array([[0, 1], [1, 0]], dtype=complex)
    if name == "Y": return np.array([[0, -i], [i, 0]], dtype=complex)
    if name == "Z": return np.array([[1, 0], [0, -1]], dtype=complex)
    if name == "S": return np.array([[1, 0], [0, i]], dtype=complex)
    if name == "Sadj": return np.array([[1, 0], [0, -i]], dtype=complex)
    if name == "T": return np.array([[1, 0], [0, cmath.exp(i * math.pi / 4)]], dtype=complex)
    if name == "Tadj": return np.array([[1, 0], [0, cmath.exp(-i * math.pi / 4)]], dtype=complex)
    if name == "SX": return 0.5 * np.array([[1 + i, 1 - i], [1 - i, 1 + i]], dtype=complex)
    if name == "P": return np.array([[1, 0], [0, cmath.exp(i * args[0])]], dtype=complex)
    if name == "Rx":
        t = args[0] / 2
        return np.array([[math.cos(t), -i * math.sin(t)], [-i * math.sin(t), math.cos(t)]], dtype=complex)
    if name == "Ry":
        t = args[0] / 2
        return np.array([[math.cos(t), -math.sin(t)], [math.sin(t), math.cos(t)]], dtype=complex)
    if name == "Rz":
        t = args[0] / 2
        return np.array([[cmath.exp(-i * t), 0], [0, cmath.exp(i * t)]], dtype=complex)
    raise KeyError(name)


def controlled(n, controls, target, op):
    """Matrix on n qubits (qubit 0 most significant) applying op to `target` iff all controls are 1."""
    dim = 2 ** n
    m = np.zeros((dim, dim), dtype=complex)
    for col, bits in enumerate(basis(n)):
        if all(bits[c] == 1 for c in controls):
            for tb in (0, 1):
                nb = list(bits)
                nb[target] = tb
                row = int("".join(map(str, nb)), 2)
                m[row, col] += op[tb, bits[target]]
        else:
            m[col, col] = 1
    return m


def multi_qubit(name, target=None):
    X, Z = textbook("X"), textbook("Z")
    if name == "CZ": return controlled(2, [0], 1, Z)
    if name == "CNOT": return controlled(2, [1 - target], target, X)
    if name == "CCZ": return controlled(3, [0, 1], 2, Z)
    if name == "CCNOT": return controlled(3, [q for q in range(3) if q != target], target, X)
    raise KeyError(name)


def subspace_matrix(u_full, heralds, n_modes, n_qubits, qubit_modes=None, accept=None, leak_sample=None, rng=None):
    """Amplitudes of a circuit between dual-rail basis inputs and *all* visible outputs with
    n_qubits photons (heralds satisfied, loss modes in vacuum).

    Returns (M, leak): M[row, col] over the qubit basis; leak = list of (col_bits, out_pattern,
    amplitude) for accepted outputs outside the qubit subspace with |amplitude| > 1e-9.
    ``accept(pattern)`` filters which visible outputs count as accepted (default: all)."""
    vis_in = [m for m in range(n_modes) if m not in heralds["input"]]
    vis_out = [m for m in range(n_modes) if m not in heralds["output"]]
    k = len(vis_in)
    if qubit_modes is None:
        qubit_modes = [(2 * q, 2 * q + 1) for q in range(n_qubits)]
    hin = list(heralds["input"].items())
    hout = list(heralds["output"].items())
    bs = basis(n_qubits)

    def occ_of(bits):
        occ = [0] * k
        for q, b in enumerate(bits):
            occ[qubit_modes[q][b]] = 1
        return tuple(occ)

    qocc = {occ_of(b): i for i, b in enumerate(bs)}
    dim = len(bs)
    m = np.zeros((dim, dim), dtype=complex)
    leak = []
    outs = boson.fock(k, n_qubits)
    if leak_sample is not None and len(outs) > leak_sample + len(qocc):
        non_q = [o for o in outs if o not in qocc]
        sel = rng.choice(len(non_q), size=leak_sample, replace=False)
        outs = list(qocc) + [non_q[int(j)] for j in sel]
    for col, bits in enumerate(bs):
        cin = [(g, x) for g, x in zip(vis_in, occ_of(bits)) if x] + hin
        for o in outs:
            if accept is not None and not accept(o):
                continue
            a = boson.amp_idx(u_full, cin, [(g, x) for g, x in zip(vis_out, o) if x] + hout)
            if o in qocc:
                m[qocc[o], col] = a
            elif abs(a) > 1e-9:
                leak.append((bits, o, a))
    return m, leak


def proportional(m, g, tol=1e-9):
    """Is m = c*g for one scalar c?  Returns (ok, c, deviation)."""
    idx = np.unravel_index(np.argmax(np.abs(g)), g.shape)
    c = m[idx] / g[idx]
    dev = float(np.max(np.abs(m - c * g)))
    return dev <= tol, c, dev


def one_photon_per_qubit(n_qubits, qubit_modes=None):
    def accept(o):
        qm = qubit_modes or [(2 * q, 2 * q + 1) for q in range(n_qubits)]
        return all(o[a] + o[b] == 1 for a, b in qm)
    return accept
