"""Monitors on the emulator's API boundary (Simulator, Sampler, QuickSampler,
Analyzer, Backend, Detector, result containers). Wrappers are installed on the
classes from outside; each records what it saw, evaluates its post-condition
against the independent references in ``boson`` and reports through
``circmon.report``. Evaluations are counted in ``circmon.STATS``."""
from __future__ import annotations

import weakref

import numpy as np

from . import boson
from .circmon import STATS, report

_installed = False
_default_objects: list = []
EVENTS: list = []          # (kind, key, payload) for the offline relation checker (C05)
lw = None


def insert_heralds(state, heralds: dict) -> list:
    """Own implementation of herald insertion: heralded positions carry the herald
    photon number, the remaining positions take the state's entries in order."""
    n = len(state) + len(heralds)
    it = iter(state)
    return [heralds[m] if m in heralds else next(it) for m in range(n)]


def valid_occupations(s):
    """True / False by the documented rule (non-negative Python integers); None when the
    rule does not say (numpy integer scalars)."""
    if any(isinstance(x, np.integer) for x in s):
        return None
    return all(isinstance(x, int) and not isinstance(x, bool) and x >= 0 for x in s)


def _state_list(x, State):
    if isinstance(x, State):
        return [x], True
    if isinstance(x, (list, tuple)):
        return list(x), all(isinstance(s, State) for s in x)
    return None, False


def sim_args_valid(circuit, inputs, outputs, State):
    """Documented preconditions of Simulator.simulate."""
    ins, ok = _state_list(inputs, State)
    if not ok or not ins:
        return False, "inputs not State / list of State"
    k = circuit.input_modes
    for s in ins:
        if len(s) != k:
            return False, "input length"
        v = valid_occupations(s.s)
        if v is None:
            return None, "numpy integer occupation"
        if not v:
            return False, "input occupation not a non-negative integer"
    ns = {s.n_photons for s in ins}
    if outputs is None:
        if len(ns) != 1:
            return False, "mixed input photon numbers"
        return True, ""
    outs, ok = _state_list(outputs, State)
    if not ok:
        return False, "outputs not State / list of State"
    for s in outs:
        if len(s) != k:
            return False, "output length"
        v = valid_occupations(s.s)
        if v is None:
            return None, "numpy integer occupation"
        if not v:
            return False, "output occupation not a non-negative integer"
    ns |= {s.n_photons for s in outs}
    if len(ns) > 1:
        return False, "mismatched photon numbers"
    return True, ""


def check_simulation(circuit, inputs, outputs_arg, result, State, tol=1e-9, max_photons=7):
    """Post-condition of Simulator.simulate against the Fock-space reference."""
    u = circuit.U_full
    h = circuit.heralds
    n = circuit.n_modes
    n_loss = u.shape[0] - n
    ins, _ = _state_list(inputs, State)
    arr = result.array
    outs = result.outputs
    problems = []
    if list(result.inputs) != ins:
        problems.append("result.inputs differ from the inputs passed")
    if arr.shape != (len(ins), len(outs)):
        problems.append(f"array shape {arr.shape} for {len(ins)} inputs and {len(outs)} outputs")
        return problems
    hph = sum(h["input"].values())
    for i, s_in in enumerate(ins):
        table = None
        full_in = insert_heralds(s_in.s, h["input"]) + [0] * n_loss
        if s_in.n_photons + hph > max_photons:
            # many photons: no permanents; on few modes the whole amplitude table comes from the polynomial expansion
            if boson.n_fock(u.shape[0], s_in.n_photons + hph) > 4000:
                STATS["sim_skipped_size"] += 1
                continue
            table = boson.amplitudes_poly(u, full_in)
            STATS["sim_many_photon_inputs_checked"] += 1
        # a permanent of n photons is an alternating sum of 2^n terms: beyond 14 photons the achievable agreement in double
        # precision degrades (measured: 6e-9 at 26 photons), so the tolerance grows with n, capped at 1e-5
        n_ph = s_in.n_photons + hph
        tol_i = tol if n_ph <= 14 else min(1e-5, tol * 4.0 ** (n_ph - 14))
        for j, s_out in enumerate(outs):
            full_out = insert_heralds(s_out.s, h["output"]) + [0] * n_loss
            ref = boson.amplitude(u, full_in, full_out) if table is None else table.get(tuple(full_out), 0j)
            STATS["sim_amplitudes_checked"] += 1
            if abs(ref - arr[i, j]) > tol_i:
                problems.append(f"amplitude {s_in.s}->{s_out.s}: simulator {arr[i, j]:.9f} reference {ref:.9f} "
                                f"(heralds in={h['input']} out={h['output']}, loss modes {n_loss})")
                break
    if outputs_arg is None and ins:
        nph = ins[0].n_photons
        want = set(boson.fock(circuit.input_modes, nph))
        got = [tuple(s.s) for s in outs]
        if len(got) != len(set(got)) or set(got) != want:
            problems.append(f"outputs=None did not give the Fock basis of {nph} photons in "
                            f"{circuit.input_modes} modes exactly once ({len(got)} states, {len(want)} expected)")
        if n_loss == 0 and not h["input"] and not h["output"]:
            for i in range(len(ins)):
                nrm = float(np.sum(np.abs(arr[i]) ** 2))
                STATS["sim_unit_rows_checked"] += 1
                if abs(nrm - 1) > 1e-8:
                    problems.append(f"lossless row {ins[i].s} has squared norm {nrm:.12f}")
    return problems


def check_distribution(dist, u_full, n_real, occ_in_real, trunc=1e-9):
    """Post-condition of an ideal-source output distribution: non-negative, no more photons
    than injected, equal to the loss-summed reference up to the documented per-state
    truncation, normalised up to that truncation. Returns problem strings 'kind: detail'."""
    problems = []
    ref = boson.distribution(u_full, n_real, occ_in_real)
    n_in = sum(occ_in_real)
    n_tot = u_full.shape[0]
    k_full = boson.n_fock(n_tot, n_in)
    allow = trunc * k_full + 1e-9
    got = {}
    for s, p in dist.items():
        key = tuple(s)
        if key in got:
            problems.append(f"duplicate: state {list(key)} appears twice")
        got[key] = p
        if not (p >= 0):
            problems.append(f"negative: p({list(key)}) = {p}")
        if sum(key) > n_in:
            problems.append(f"photons: pattern {list(key)} holds more photons than the {n_in} injected")
        if len(key) != n_real:
            problems.append(f"length: pattern {list(key)} is not over the circuit's {n_real} modes")
    total = sum(got.values())
    if not (1 - allow <= total <= 1 + 1e-9):
        problems.append(f"total: probabilities sum to {total:.12f} ({k_full} full output patterns)")
    n_loss = n_tot - n_real
    vac = tuple([0] * n_real)
    for key in set(ref) | set(got):
        r, g = ref.get(key, 0.0), got.get(key, 0.0)
        # per entry: one dropped full state (<= 1e-9) per loss-mode pattern it sums over; the all-vacuum pattern of a
        # lossy circuit may additionally absorb everything that was dropped elsewhere
        if key == vac and n_loss:
            a_key = allow
        else:
            a_key = trunc * boson.n_fock(n_loss, max(n_in - sum(key), 0)) + 1e-12 if n_loss else trunc + 1e-12
        if abs(r - g) > a_key:
            problems.append(f"value: p({list(key)}) = {g:.12f}, reference {r:.12f} (allowed deviation {a_key:.3g})")
            break
    return problems


SRC_MAX_PHOTONS = 4
MAX_REF_PATTERNS = 3500     # reference distributions above this many full output patterns are skipped and counted
DET_LOG = None     # set to a dict by a check to collect (settings -> in_state -> out_state -> count)


def check_sampling_result(obj, kind, name, a, k, res):
    """Safety post-conditions on what a sampling method returned."""
    from lightworks.emulator.utils import process_post_selection
    problems = []
    c = obj.circuit
    is_quick = type(obj).__name__ == "QuickSampler"
    n_vis = c.input_modes
    if is_quick:
        ps = obj.post_select
        counting = obj.photon_counting
        min_det = 0
    else:
        ps_arg = a[1] if len(a) > 1 else k.get("post_select")
        ps = process_post_selection(ps_arg) if kind != "single" else process_post_selection(None)
        counting = obj.detector.photon_counting
        min_det = (a[2] if len(a) > 2 else k.get("min_detection", 0)) if kind != "single" else 0
    if kind == "single":
        states = {res: 1}
    else:
        states = dict(res)
        n = a[0] if a else k.get("N")
        tot = sum(states.values())
        if kind == "n_outputs" and tot != n:
            problems.append(f"count: {tot} samples returned for N={n}")
        if kind == "n_inputs" and tot > n:
            problems.append(f"count: {tot} samples returned for N={n} inputs")
        if any((not isinstance(v, (int, np.integer))) or v <= 0 for v in states.values()):
            problems.append("count: non-positive or non-integer count")
    for s in states:
        if len(s) != n_vis:
            problems.append(f"heralds_not_removed: returned state {s} has {len(s)} modes, circuit has "
                            f"{n_vis} non-heralded modes (heralds {c.heralds['output']})")
            break
        if not ps.validate(s):
            problems.append(f"post_selection: returned state {s} fails the post-selection")
            break
        if s.n_photons < min_det:
            problems.append(f"min_detection: returned state {s} has fewer than {min_det} photons")
            break
        if not counting and any(x > 1 for x in s):
            problems.append(f"threshold: returned state {s} with threshold detectors")
            break
    return problems


def check_source_statistics(stats, occ, src):
    """Post-condition of Source._build_statistics: a normalised, non-negative distribution over
    label partitions equal to the generative reference (labels themselves are irrelevant)."""
    from . import srcref
    problems = []
    got: dict = {}
    for st, p in stats.items():
        if not (p >= 0):
            problems.append(f"negative: p({st}) = {p}")
        if len(st) != len(occ):
            problems.append(f"length: input {st} has {len(st)} modes, target has {len(occ)}")
        k = srcref.annotated_to_key(st)
        got[k] = got.get(k, 0.0) + p
    tot = sum(got.values())
    thr = src.probability_threshold
    ref = srcref.input_statistics(occ, src.brightness, src.purity, src.indistinguishability, 0.0)
    if thr and not any(p >= thr * (1 - 1e-9) for p in ref.values()):
        # the threshold exceeds every input probability: nothing is left to normalise. The property's
        # "normalised" cannot be demanded of an empty set; recorded, not judged.
        STATS["source_threshold_removed_everything"] += 1
        return problems if not stats else problems + [f"value: threshold {thr} exceeds every input probability "
                                                      f"but {len(stats)} inputs were kept"]
    if abs(tot - 1) > 1e-9:
        problems.append(f"total: input statistics sum to {tot:.12f}")
    if thr:
        # entries within float noise of the threshold may legitimately fall either side
        sure = {k: p for k, p in ref.items() if p >= thr * (1 + 1e-9)}
        maybe = {k: p for k, p in ref.items() if thr * (1 - 1e-9) <= p < thr * (1 + 1e-9)}
        kept = dict(sure)
        kept.update({k: p for k, p in maybe.items() if k in got})
        t = sum(kept.values())
        ref = {k: p / t for k, p in kept.items()} if t else {}
    for k in set(ref) | set(got):
        if abs(ref.get(k, 0.0) - got.get(k, 0.0)) > 1e-9:
            problems.append(f"value: partition {list(k)} has probability {got.get(k, 0.0):.12f}, "
                            f"reference {ref.get(k, 0.0):.12f}")
            break
    return problems


def check_source_distribution(dist, u_full, n_real, occ, src):
    from . import srcref
    problems = []
    stats = srcref.input_statistics(occ, src.brightness, src.purity, src.indistinguishability, 0.0)
    thr = src.probability_threshold
    if thr:
        if any(thr * (1 - 1e-9) <= p < thr * (1 + 1e-9) for p in stats.values()):
            STATS["source_threshold_tie_skipped"] += 1
            return problems
        kept = {k: p for k, p in stats.items() if p >= thr}
        t = sum(kept.values())
        if not kept:
            STATS["source_threshold_removed_everything"] += 1
            return problems
        stats = {k: p / t for k, p in kept.items()}
    ref = srcref.output_distribution(u_full, n_real, stats)
    # allowance: the documented per-state truncation, scaled by the weight of the source configuration it acts on
    allow = 2 * srcref.output_distribution.last_allowance + 1e-12
    got = {}
    for s, p in dist.items():
        got[tuple(s)] = got.get(tuple(s), 0.0) + p
        if not (p >= 0):
            problems.append(f"negative: p({list(s)}) = {p}")
    tot = sum(got.values())
    if not (1 - allow <= tot <= 1 + 1e-8):
        problems.append(f"total: probabilities sum to {tot:.12f}")
    for k in set(ref) | set(got):
        if abs(ref.get(k, 0.0) - got.get(k, 0.0)) > allow:
            problems.append(f"value: p({list(k)}) = {got.get(k, 0.0):.12f}, mixture reference {ref.get(k, 0.0):.12f}")
            break
    return problems


def install():
    global _installed, lw
    if _installed:
        return
    import functools

    import lightworks as _lw
    lw = _lw
    from lightworks import emulator as emu
    State = _lw.State

    # ---------------- Simulator.simulate (C03)
    orig_sim = emu.Simulator.simulate

    @functools.wraps(orig_sim)
    def simulate(self, inputs, outputs=None):
        try:
            ok, why = sim_args_valid(self.circuit, inputs, outputs, State)
        except Exception:  # noqa: BLE001
            ok, why = None, "validity undecidable"
        try:
            res = orig_sim(self, inputs, outputs)
        except Exception as e:
            STATS["sim_raised"] += 1
            if ok is True and type(e).__name__ != "CircuitCompilationError":
                report("C03", f"Simulator.simulate raised {type(e).__name__}: {e} on valid arguments",
                       monitor="Simulator.simulate exception path", mechanism="valid_rejected",
                       witness={"inputs": repr(inputs), "outputs": repr(outputs)})
            raise
        STATS["sim_calls"] += 1
        if ok is False:
            report("C03", f"Simulator.simulate accepted invalid arguments ({why})",
                   monitor="Simulator.simulate precondition", mechanism="invalid_accepted:" + why,
                   witness={"inputs": repr(inputs), "outputs": repr(outputs)})
            return res
        if ok is None:
            return res
        try:
            problems = check_simulation(self.circuit, inputs, outputs, res, State)
        except Exception as e:  # noqa: BLE001 - monitor could not evaluate: count, never judge
            STATS["sim_monitor_errors"] += 1
            STATS["sim_monitor_error:" + type(e).__name__] += 1
            return res
        STATS["sim_postconditions"] += 1
        for p in problems:
            report("C03", p, monitor="Simulator.simulate post-condition", mechanism="amplitude_mismatch"
                   if p.startswith("amplitude") else "simulation_structure",
                   witness={"inputs": repr(inputs), "outputs": repr(outputs)})
        return res

    emu.Simulator.simulate = simulate

    # ---------------- Backend.full_probability_distribution (C04)
    from lightworks.emulator.backend import Backend
    orig_fpd = Backend.full_probability_distribution

    @functools.wraps(orig_fpd)
    def full_probability_distribution(self, circuit, input_state):
        res = orig_fpd(self, circuit, input_state)
        try:
            occ = list(input_state)
            if boson.n_fock(circuit.total_modes, sum(occ)) <= MAX_REF_PATTERNS:
                problems = check_distribution(res, circuit.U_full, circuit.n_modes, occ)
                STATS["backend_dist_postconditions"] += 1
                STATS["backend_dist_postconditions:" + self.backend] += 1
                for p in problems:
                    report("C04", f"Backend('{self.backend}').full_probability_distribution: {p}",
                           monitor="Backend.full_probability_distribution post-condition",
                           mechanism="backend_distribution:" + p.split(":")[0],
                           witness={"input": occ, "backend": self.backend,
                                    "n_modes": circuit.n_modes, "loss_modes": circuit.loss_modes})
            else:
                STATS["backend_dist_skipped_size"] += 1
        except Exception as e:  # noqa: BLE001
            STATS["backend_dist_monitor_error:" + type(e).__name__] += 1
        return res

    Backend.full_probability_distribution = full_probability_distribution

    # ---------------- Sampler.probability_distribution getter (C04 ideal source)
    prop = emu.Sampler.__dict__["probability_distribution"]
    orig_get = prop.fget

    def pd_get(self):
        res = orig_get(self)
        try:
            src = self.source
            ideal = (src.brightness == 1 and src.purity == 1 and src.indistinguishability == 1
                     and not src.probability_threshold)
            c = self.circuit
            # re-check whenever the returned object OR the configuration it should reflect is new
            cfg = (src.brightness, src.purity, src.indistinguishability, src.probability_threshold,
                   tuple(self.input_state), self.backend.backend, tuple(sorted(c.heralds["input"].items())),
                   tuple(sorted(c.heralds["output"].items())), c.U_full.tobytes())
            seen = getattr(self, "_lwverif_seen", None)
            if seen is None or seen[0] is not res or seen[1] != cfg:
                object.__setattr__(self, "_lwverif_seen", (res, cfg))
                occ = insert_heralds(self.input_state.s, c.heralds["input"])
                u = c.U_full
                if ideal and boson.n_fock(u.shape[0], sum(occ)) <= MAX_REF_PATTERNS:
                    problems = check_distribution(res, u, c.n_modes, occ)
                    STATS["sampler_dist_postconditions"] += 1
                    for p in problems:
                        report("C04", f"Sampler.probability_distribution ({self.backend.backend}): {p}",
                               monitor="Sampler.probability_distribution post-condition",
                               mechanism="sampler_distribution:" + p.split(":")[0],
                               witness={"input": occ, "backend": self.backend.backend,
                                        "n_modes": c.n_modes, "loss_modes": u.shape[0] - c.n_modes})
                elif not ideal and sum(occ) <= SRC_MAX_PHOTONS and u.shape[0] <= 10:
                    problems = check_source_distribution(res, u, c.n_modes, occ, src)
                    STATS["sampler_source_postconditions"] += 1
                    for p in problems:
                        report("C06", f"Sampler.probability_distribution with {src} ({self.backend.backend}): {p}",
                               monitor="Sampler.probability_distribution post-condition (imperfect source)",
                               mechanism="source_distribution:" + p.split(":")[0],
                               witness={"input": occ, "backend": self.backend.backend, "n_modes": c.n_modes,
                                        "loss_modes": u.shape[0] - c.n_modes, "source": str(src)})
                elif not ideal:
                    STATS["sampler_source_skipped_size"] += 1
        except Exception as e:  # noqa: BLE001
            STATS["sampler_dist_monitor_error:" + type(e).__name__] += 1
        return res

    emu.Sampler.probability_distribution = property(pd_get, doc=prop.__doc__)

    # ---------------- Sampler.__init__: what "no source / no detector / no backend" means (C04, C07)
    orig_sinit = emu.Sampler.__init__

    @functools.wraps(orig_sinit)
    def sampler_init(self, circuit, input_state, source=None, detector=None, backend=None):
        orig_sinit(self, circuit, input_state, source, detector, backend)
        try:
            STATS["sampler_default_checks"] += 1
            # objects created for an omitted argument must be private to this sampler
            for label, given, obj in (("source", source, self.source), ("detector", detector, self.detector),
                                      ("backend", backend if not isinstance(backend, str) else None, self.backend)):
                if given is None:
                    if any(r() is obj for r in _default_objects):
                        report("C11", f"the default {label} of a new Sampler is the same object another Sampler already "
                                      f"holds (reconfiguring one in place reconfigures the other)",
                               monitor="Sampler.__init__ post-condition", mechanism="default_object_shared:" + label)
                    try:
                        _default_objects.append(weakref.ref(obj))
                    except TypeError:
                        pass
            del _default_objects[:-200]
            if source is None:
                s = self.source
                if not (s.brightness == 1 and s.purity == 1 and s.indistinguishability == 1
                        and not s.probability_threshold):
                    report("C04", f"a Sampler created without a source does not have an ideal source: {s}",
                           monitor="Sampler.__init__ post-condition", mechanism="default_source_not_ideal")
            if detector is None:
                d = self.detector
                if not (d.efficiency == 1 and d.p_dark == 0 and d.photon_counting is True):
                    report("C07", f"a Sampler created without a detector does not have a perfect detector: {d}",
                           monitor="Sampler.__init__ post-condition", mechanism="default_detector_not_perfect")
            if backend is None and self.backend.backend != "permanent":
                report("C04", f"a Sampler created without a backend uses '{self.backend.backend}'",
                       monitor="Sampler.__init__ post-condition", mechanism="default_backend")
        except Exception as e:  # noqa: BLE001
            STATS["sampler_default_monitor_error:" + type(e).__name__] += 1

    emu.Sampler.__init__ = sampler_init

    # ---------------- Source._build_statistics (C06)
    from lightworks.emulator.components import Source
    orig_bs = Source._build_statistics

    @functools.wraps(orig_bs)
    def _build_statistics(self, state):
        res = orig_bs(self, state)
        try:
            occ = list(state)
            if sum(occ) <= SRC_MAX_PHOTONS + 1:
                STATS["source_stats_postconditions"] += 1
                for p in check_source_statistics(res, occ, self):
                    report("C06", f"{self}._build_statistics({occ}): {p}",
                           monitor="Source._build_statistics post-condition",
                           mechanism="source_statistics:" + p.split(":")[0],
                           witness={"input": occ, "source": str(self)})
        except Exception as e:  # noqa: BLE001
            STATS["source_stats_monitor_error:" + type(e).__name__] += 1
        return res

    Source._build_statistics = _build_statistics

    # ---------------- Detector._get_output (C07): per-event invariants + conditional histogram
    from lightworks.emulator.components import Detector
    orig_go = Detector._get_output

    @functools.wraps(orig_go)
    def _get_output(self, in_state):
        out = orig_go(self, in_state)
        try:
            a, b = tuple(in_state), tuple(out)
            eta, pd, pc = self.efficiency, self.p_dark, self.photon_counting
            STATS["detector_events"] += 1
            bad = None
            if len(a) != len(b):
                bad = "length changed"
            elif any(y > x + 1 for x, y in zip(a, b)):
                bad = "more than one extra count on a mode"
            elif pd == 0 and any(y > x for x, y in zip(a, b)):
                bad = "count gained without dark counts"
            elif eta == 1 and pd == 0 and pc and a != b:
                bad = "perfect detector changed the state"
            elif eta == 1 and any(y < min(x, 1) for x, y in zip(a, b)):
                bad = "photon lost at unit efficiency"
            elif not pc and any(y not in (0, 1) for y in b):
                bad = "threshold detector reported a count above one"
            elif any(y < 0 for y in b):
                bad = "negative count"
            if bad:
                report("C07", f"Detector(eff={eta}, p_dark={pd}, counting={pc}) {list(a)} -> {list(b)}: {bad}",
                       monitor="Detector._get_output invariant", mechanism="detector_invariant")
            if DET_LOG is not None:
                d = DET_LOG.setdefault((eta, pd, pc), {}).setdefault(a, {})
                d[b] = d.get(b, 0) + 1
        except Exception as e:  # noqa: BLE001
            STATS["detector_monitor_error:" + type(e).__name__] += 1
        return out

    Detector._get_output = _get_output

    # ---------------- sampling methods (C07): per-sample safety post-conditions
    def wrap_sampling(cls, name, kind):
        orig = getattr(cls, name)

        @functools.wraps(orig)
        def w(self, *a, **k):
            res = orig(self, *a, **k)
            try:
                for p in check_sampling_result(self, kind, name, a, k, res):
                    report("C07", f"{cls.__name__}.{name}: {p}", monitor=f"{cls.__name__}.{name} post-condition",
                           mechanism="sample_safety:" + p.split(":")[0] + ":" + cls.__name__ + "." + name)
                STATS["sampling_postconditions"] += 1
                STATS["sampling_postconditions:" + cls.__name__ + "." + name] += 1
            except Exception as e:  # noqa: BLE001
                STATS["sampling_monitor_error:" + type(e).__name__] += 1
            return res

        setattr(cls, name, w)

    wrap_sampling(emu.Sampler, "sample", "single")
    wrap_sampling(emu.Sampler, "sample_N_inputs", "n_inputs")
    wrap_sampling(emu.Sampler, "sample_N_outputs", "n_outputs")
    wrap_sampling(emu.QuickSampler, "sample", "single")
    wrap_sampling(emu.QuickSampler, "sample_N_outputs", "n_outputs")
    _installed = True
