"""Independent Fock-space reference (DESIGN 3.2): own permanent, own basis
enumeration, amplitudes and loss-summed distributions. Does not use thewalrus,
lightworks' Permanent/SLOS backends or its fock_basis."""
from __future__ import annotations

import math
from functools import lru_cache
from itertools import combinations_with_replacement

import numpy as np


def perm(a: np.ndarray) -> complex:
    """Permanent by Glynn's formula with Gray-code updates (O(2^(n-1) n))."""
    a = np.asarray(a, dtype=complex)
    n = a.shape[0]
    if n == 0:
        return 1.0 + 0j
    if n == 1:
        return complex(a[0, 0])
    if n == 2:
        return complex(a[0, 0] * a[1, 1] + a[0, 1] * a[1, 0])
    if n == 3:
        return complex(
            a[0, 0] * (a[1, 1] * a[2, 2] + a[1, 2] * a[2, 1])
            + a[0, 1] * (a[1, 0] * a[2, 2] + a[1, 2] * a[2, 0])
            + a[0, 2] * (a[1, 0] * a[2, 1] + a[1, 1] * a[2, 0])
        )
    # Glynn: perm = 2^{1-n} sum_delta (prod_k delta_k) prod_j sum_i delta_i a_ij, delta_0 = +1
    rows = a.sum(axis=0)  # all deltas +1
    total = np.prod(rows)
    delta = np.ones(n)
    sign = 1.0
    for g in range(1, 1 << (n - 1)):
        # index of lowest set bit of g -> which delta flips (1..n-1)
        k = (g & -g).bit_length()  # 1-based
        rows = rows - 2.0 * delta[k] * a[k]
        delta[k] = -delta[k]
        sign = -sign
        total += sign * np.prod(rows)
    return complex(total / (1 << (n - 1)))


def perm_ryser(a: np.ndarray) -> complex:
    """Plain Ryser, used only to cross-check ``perm`` in the self-test."""
    a = np.asarray(a, dtype=complex)
    n = a.shape[0]
    if n == 0:
        return 1.0 + 0j
    tot = 0j
    for mask in range(1, 1 << n):
        cols = [j for j in range(n) if mask >> j & 1]
        tot += (-1) ** (n - len(cols)) * np.prod(a[:, cols].sum(axis=1))
    return complex(tot)


@lru_cache(maxsize=4096)
def fock(n_modes: int, n_photons: int) -> tuple:
    """All occupation tuples of n_photons in n_modes (lexicographic)."""
    if n_modes == 0:
        return ((),) if n_photons == 0 else ()
    out = []
    for comb in combinations_with_replacement(range(n_modes), n_photons):
        occ = [0] * n_modes
        for m in comb:
            occ[m] += 1
        out.append(tuple(occ))
    return tuple(sorted(out, reverse=True))


def n_fock(n_modes: int, n_photons: int) -> int:
    return math.comb(n_modes + n_photons - 1, n_photons) if n_modes else int(n_photons == 0)


def amplitude(u: np.ndarray, occ_in, occ_out) -> complex:
    """<occ_out| U |occ_in> for full-length occupation lists (rows = outputs)."""
    cols = [i for i, n in enumerate(occ_in) for _ in range(n)]
    rows = [i for i, n in enumerate(occ_out) for _ in range(n)]
    if len(cols) != len(rows):
        return 0j
    f = 1
    for n in occ_in:
        f *= math.factorial(n)
    for n in occ_out:
        f *= math.factorial(n)
    return perm(u[np.ix_(rows, cols)]) / math.sqrt(f)


def amp_idx(t: np.ndarray, cols_occ, rows_occ) -> complex:
    """Amplitude with explicit (index, photons) lists; everything else vacuum."""
    c = [i for i, n in cols_occ for _ in range(n)]
    r = [i for i, n in rows_occ for _ in range(n)]
    if len(c) != len(r):
        return 0j
    f = 1
    for _, n in cols_occ:
        f *= math.factorial(n)
    for _, n in rows_occ:
        f *= math.factorial(n)
    return perm(t[np.ix_(r, c)]) / math.sqrt(f)


def amplitudes_poly(u: np.ndarray, occ_in) -> dict:
    """All output amplitudes <occ_out| U |occ_in> at once, by expanding prod_j (sum_i U_ij x_i)^(n_j) as a polynomial in
    the creation operators (coefficient of prod_i x_i^(k_i) times sqrt(prod k_i! / prod n_j!)). No permanents: the cost
    is (number of output patterns) x modes x photons, so heavily bunched inputs on few modes - where a permanent would
    be 2^n - stay cheap. Independent of ``perm`` above (the self-test cross-checks the two)."""
    u = np.asarray(u, dtype=complex)
    m = u.shape[0]
    poly = {tuple([0] * m): 1.0 + 0j}
    for j, nj in enumerate(occ_in):
        col = u[:, j]
        nz = [(i, col[i]) for i in range(m) if col[i] != 0]
        for _ in range(int(nj)):
            new: dict = {}
            for key, val in poly.items():
                for i, c in nz:
                    k2 = key[:i] + (key[i] + 1,) + key[i + 1:]
                    new[k2] = new.get(k2, 0j) + val * c
            poly = new
    f_in = 1
    for nj in occ_in:
        f_in *= math.factorial(int(nj))
    out = {}
    for key, val in poly.items():
        f_out = 1
        for k in key:
            f_out *= math.factorial(k)
        out[key] = val * math.sqrt(f_out / f_in) if f_out < 1e300 and f_in < 1e300 else \
            val * math.exp(0.5 * (math.lgamma(1) + sum(math.lgamma(k + 1) for k in key)
                                  - sum(math.lgamma(int(nj) + 1) for nj in occ_in)))
    return out


POLY_ABOVE_PHOTONS = 7      # from here on distributions / amplitude tables come from amplitudes_poly


def distribution(u_full: np.ndarray, n_real: int, occ_in_real) -> dict:
    """Exact probability of every pattern on the first n_real modes, summed over
    all ways the remaining photons end up in the loss modes (vacuum injected
    into loss modes). Keys are tuples of length n_real."""
    n_tot = u_full.shape[0]
    n_loss = n_tot - n_real
    occ_in = list(occ_in_real) + [0] * n_loss
    n = sum(occ_in)
    out: dict = {}
    if n > POLY_ABOVE_PHOTONS:
        for occ, a in amplitudes_poly(u_full, occ_in).items():
            p = abs(a) ** 2
            if p:
                out[occ[:n_real]] = out.get(occ[:n_real], 0.0) + p
        return out
    for occ in fock(n_tot, n):
        a = amplitude(u_full, occ_in, occ)
        p = abs(a) ** 2
        if p == 0.0:
            continue
        k = occ[:n_real]
        out[k] = out.get(k, 0.0) + p
    return out


def convolve(d1: dict, d2: dict) -> dict:
    out: dict = {}
    for k1, p1 in d1.items():
        for k2, p2 in d2.items():
            k = tuple(a + b for a, b in zip(k1, k2))
            out[k] = out.get(k, 0.0) + p1 * p2
    return out


def is_unitary(u: np.ndarray, tol: float = 1e-9) -> float:
    """Returns max |U^dagger U - I| entry."""
    u = np.asarray(u)
    return float(np.max(np.abs(u.conj().T @ u - np.eye(u.shape[0]))))
