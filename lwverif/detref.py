"""Detector model reference (DESIGN 3.4): exact push-forward of a distribution
through  efficiency thinning -> at most one dark count per mode -> threshold
capping,  then herald check, herald removal, post-selection, min_detection.
Also exact two-sided binomial tail tests."""
from __future__ import annotations

import math
from functools import lru_cache
from itertools import product

from scipy import stats as sps


@lru_cache(maxsize=100000)
def mode_response(n: int, eta: float, p_dark: float, counting: bool) -> tuple:
    """Distribution of the detected count for n photons on one mode: ((k, prob), ...)."""
    out: dict = {}
    for k in range(n + 1):
        pk = math.comb(n, k) * eta ** k * (1 - eta) ** (n - k) if n else 1.0
        if pk == 0:
            continue
        for d, pd in ((0, 1 - p_dark), (1, p_dark)):
            if pd == 0:
                continue
            v = k + d
            if not counting:
                v = min(v, 1)
            out[v] = out.get(v, 0.0) + pk * pd
    return tuple(sorted(out.items()))


def detect_state(occ, eta, p_dark, counting) -> dict:
    """Exact distribution of detector outputs for one input pattern."""
    per_mode = [mode_response(int(n), eta, p_dark, counting) for n in occ]
    out: dict = {}
    for combo in product(*per_mode):
        p = 1.0
        for _v, q in combo:
            p *= q
        k = tuple(v for v, _q in combo)
        out[k] = out.get(k, 0.0) + p
    return out


def accepted_distribution(dist: dict, herald_out: dict, eta, p_dark, counting, pred, min_detection) -> dict:
    """{visible pattern: probability per clock cycle of being returned}. ``dist`` is over full patterns."""
    hm = sorted(herald_out)
    res: dict = {}
    for full, p in dist.items():
        if p <= 0:
            continue
        # herald modes: only the herald value matters
        ph = 1.0
        for m in hm:
            r = dict(mode_response(int(full[m]), eta, p_dark, counting))
            ph *= r.get(herald_out[m], 0.0)
        if ph == 0:
            continue
        vis = [n for m, n in enumerate(full) if m not in herald_out]
        for v, q in detect_state(tuple(vis), eta, p_dark, counting).items():
            if sum(v) >= min_detection and pred(list(v)):
                res[v] = res.get(v, 0.0) + p * ph * q
    return res


def binom_two_sided(x: int, n: int, p: float) -> float:
    """Exact two-sided binomial tail probability (doubling the smaller tail, capped at 1)."""
    if p <= 0:
        return 1.0 if x == 0 else 0.0
    if p >= 1:
        return 1.0 if x == n else 0.0
    lo = sps.binom.cdf(x, n, p)
    hi = sps.binom.sf(x - 1, n, p)
    return float(min(1.0, 2 * min(lo, hi)))
