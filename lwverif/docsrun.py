"""Documentation examples as a workload (DESIGN 2.4 item 3): the Python code blocks of docs/source/**/*.rst
and the code cells of the tutorial / example notebooks are executed with every boundary monitor installed.
Errors raised by the examples themselves are counted, never judged; only the monitors' observations count.

  python -m lwverif.docsrun one <file> <out.json>     (child: one document)
  python -m lwverif.docsrun all <outdir>              (parent: every document, in parallel subprocesses)
"""
from __future__ import annotations

import json
import os
import re
import subprocess
import sys
from concurrent.futures import ThreadPoolExecutor
from pathlib import Path

ROOT = Path(__file__).resolve().parent.parent


def blocks_of(path: Path) -> list[str]:
    if path.suffix == ".ipynb":
        nb = json.loads(path.read_text())
        out = []
        for c in nb.get("cells", []):
            if c.get("cell_type") == "code":
                src = "".join(c.get("source", []))
                src = "\n".join(l for l in src.splitlines() if not l.lstrip().startswith(("%", "!")))
                if src.strip():
                    out.append(src)
        return out
    text = path.read_text()
    out, lines, i = [], text.splitlines(), 0
    while i < len(lines):
        if re.match(r"\s*\.\. code-block:: [Pp]ython", lines[i]):
            i += 1
            body = []
            while i < len(lines) and (not lines[i].strip() or lines[i].startswith((" ", "\t"))):
                body.append(lines[i])
                i += 1
            src = "\n".join(body)
            import textwrap
            src = textwrap.dedent(src)
            if src.strip():
                out.append(src)
        else:
            i += 1
    return out


def run_one(path: str, out: str) -> int:
    os.environ.setdefault("MPLBACKEND", "Agg")
    sys.path.insert(0, str(ROOT))
    os.environ["LWVERIF_PLUGIN_OUT"] = ""
    from lwverif import pytest_plugin as pl          # installs every monitor
    from lwverif import circmon
    import matplotlib.pyplot as plt
    plt.show = lambda *a, **k: None
    try:
        import IPython.display
        IPython.display.display = lambda *a, **k: None
        from lightworks.sdk.circuit import circuit as cmod
        cmod.display.display = lambda *a, **k: None
    except Exception:  # noqa: BLE001
        pass
    ns: dict = {"__name__": "__docs__"}
    # the .rst snippets assume the imports of the page's first example
    exec("import numpy as np\nimport lightworks as lw\nfrom lightworks import emulator, qubit, interferometers, tomography\n"
         "from lightworks import emulator as emu\nimport matplotlib.pyplot as plt", ns)  # noqa: S102
    n_ok = n_err = 0
    errs = []
    for src in blocks_of(Path(path)):
        try:
            exec(compile(src, path, "exec"), ns)  # noqa: S102
            n_ok += 1
        except BaseException as e:  # noqa: BLE001
            n_err += 1
            if len(errs) < 5:
                errs.append(f"{type(e).__name__}: {str(e)[:120]}")
        plt.close("all")
        # quiescent point: compare live circuits of the example namespace with their shadows
        for v in list(ns.values()):
            if isinstance(v, circmon.Circuit):
                status, problems = circmon.compare(v)
                for kind, detail in problems:
                    prop = {"unitarity": "C01", "shape": "C01", "compile": "C02", "frame": "C02", "amp": "C02",
                            "invalid_not_raised": "C10"}[kind]
                    circmon.report(prop, f"{kind}: {detail}", monitor="shadow comparison after a documentation block",
                                   mechanism="docs_" + kind)
    obs = circmon.drain()
    for o in obs:
        o["test"] = "docs:" + os.path.basename(path)
    Path(out).write_text(json.dumps({"file": path, "blocks_ok": n_ok, "blocks_raised": n_err, "errors": errs,
                                     "stats": dict(circmon.STATS), "observations": json.loads(json.dumps(obs, default=repr))}))
    return 0


def run_all(outdir: str, repo: str = "/repo", timeout: int = 600) -> dict:
    docs = Path(repo) / "docs" / "source"
    files = sorted(str(p) for p in docs.rglob("*.rst") if "code-block:: " in p.read_text()) + \
        sorted(str(p) for p in docs.rglob("*.ipynb") if ".ipynb_checkpoints" not in str(p))
    Path(outdir).mkdir(parents=True, exist_ok=True)
    env = dict(os.environ, PYTHONPATH=str(ROOT), MPLBACKEND="Agg", LIGHTWORKS_VERIF="1")

    def job(f):
        out = os.path.join(outdir, re.sub(r"[^A-Za-z0-9]+", "_", f)[-80:] + ".json")
        try:
            subprocess.run([sys.executable, "-m", "lwverif.docsrun", "one", f, out], env=env, cwd=str(ROOT),
                           timeout=timeout, capture_output=True)
        except subprocess.TimeoutExpired:
            return {"file": f, "timeout": True}
        if os.path.exists(out):
            d = json.loads(Path(out).read_text())
            os.unlink(out)
            return d
        return {"file": f, "failed": True}

    with ThreadPoolExecutor(max_workers=8) as ex:
        results = list(ex.map(job, files))
    return {"files": len(files), "results": results}


if __name__ == "__main__":
    if sys.argv[1] == "one":
        sys.exit(run_one(sys.argv[2], sys.argv[3]))
    r = run_all(sys.argv[2], os.environ.get("LWVERIF_REPO", "/repo"))
    from collections import Counter
    st = Counter()
    for d in r["results"]:
        st.update(d.get("stats", {}))
        print(os.path.basename(d["file"]), "ok", d.get("blocks_ok"), "raised", d.get("blocks_raised"),
              "timeout" if d.get("timeout") else "", "obs", len(d.get("observations", [])), d.get("errors", [])[:1])
    print({k: v for k, v in st.items() if "postcond" in k or k in ("cmp", "arg_checks")})
