"""Circuit monitor: a wire-labelled shadow model (DESIGN 3.1) attached from
outside to every ``lightworks.Circuit`` ever created in the process.

Depth-0 calls of the public mutators advance the shadow (history + executable
reference model; each Circuit object is a "process" with its own history).
Rewrites (unpack_groups, compress_mode_swaps, remove_non_adjacent_bs) do not
advance it, so a comparison after them is the C09 oracle; Parameters are held
by reference and evaluated late, so the same comparison is the C10 oracle.

The model knows nothing about "full mode" indices: user mode numbers refer to
the ordered list ``numbered`` of wire labels; added sub-circuits get fresh
wires; heralds are (in-wire, out-wire, n) pairs.
"""
from __future__ import annotations

import itertools
import math
import weakref
from collections import Counter

import numpy as np

from . import boson

# the private attributes whose content the shadow models; only a write to one of these from outside the API taints a shadow
MODELLED_PRIVATE_STATE = {"_Circuit__" + a for a in ("circuit_spec", "n_modes", "in_heralds", "out_heralds",
                                                     "external_in_heralds", "external_out_heralds", "internal_modes")}
MAX_COMPARE_PHOTONS = 9      # largest permanent evaluated in a shadow comparison
_wire = itertools.count()

STATS: Counter = Counter()
PENDING: list[dict] = []       # observations made by monitors, drained by the checks
_depth = 0
_installed = False
_shadows: "weakref.WeakKeyDictionary" = weakref.WeakKeyDictionary()

Circuit = Unitary = Parameter = None  # bound in install()


class ShadowInvalid(Exception):
    """A current parameter value is invalid for its component (C10)."""


def report(prop: str, what: str, witness=None, mechanism: str | None = None, monitor: str = "") -> None:
    PENDING.append({"prop": prop, "what": what, "witness": witness,
                    "mechanism": mechanism, "monitor": monitor})


def drain() -> list[dict]:
    out = list(PENDING)
    PENDING.clear()
    return out


def val(x):
    return x.get() if (Parameter is not None and isinstance(x, Parameter)) else x


class Shadow:
    __slots__ = ("numbered", "ops", "pairs", "n_private", "extra", "tainted",
                 "retired", "n_loss", "version", "events", "adopted")

    def __init__(self, n: int):
        self.numbered = [next(_wire) for _ in range(n)]
        self.ops: list = []          # (kind, wires, payload)
        self.pairs: list = []        # (in_wire, out_wire, n) heralds, declaration order
        self.n_private = 0           # herald pairs that are private ancillas
        self.extra: list = []        # private / loss wires in creation order
        self.tainted = False         # model no longer follows the object (counted, never judged)
        self.retired = False         # numbering retired by unpack_groups
        self.n_loss = 0
        self.version = 0
        self.events: list = []       # short event log for witnesses
        self.adopted = False

    def copy(self) -> "Shadow":
        s = Shadow(0)
        s.numbered = list(self.numbered)
        s.ops = list(self.ops)
        s.pairs = list(self.pairs)
        s.n_private = self.n_private
        s.extra = list(self.extra)
        s.tainted = self.tainted
        s.retired = self.retired
        s.n_loss = self.n_loss
        s.events = list(self.events)
        return s

    def frozen(self) -> "Shadow":
        s = self.copy()
        s.ops = [(k, w, tuple(val(p) for p in pl)) for k, w, pl in self.ops]
        return s

    # ---- events addressed by numbered position
    def bs(self, p, q, r, conv):
        self.ops.append(("bs", (self.numbered[p], self.numbered[q]), (r, conv)))

    def ps(self, p, phi):
        self.ops.append(("ps", (self.numbered[p],), (phi,)))

    def loss(self, p, l):
        w = next(_wire)
        self.extra.append(w)
        self.n_loss += 1
        self.ops.append(("loss", (self.numbered[p], w), (l,)))

    def swaps(self, d):
        ks = sorted(d)
        if ks:
            self.ops.append(("perm", tuple(self.numbered[k] for k in ks),
                             (tuple(ks.index(d[k]) for k in ks),)))

    def unitary(self, p, u):
        u = np.array(u, dtype=complex)
        self.ops.append(("U", tuple(self.numbered[p + i] for i in range(u.shape[0])), (u,)))

    def herald(self, n, i, o):
        self.pairs.append((self.numbered[i], self.numbered[o], n))

    def h_in(self):
        return {a: n for a, b, n in self.pairs}

    def h_out(self):
        return {b: n for a, b, n in self.pairs}

    def in_vis(self):
        h = self.h_in()
        return [w for w in self.numbered if w not in h]

    def out_vis(self):
        h = self.h_out()
        return [w for w in self.numbered if w not in h]

    def params(self):
        out = []
        for _k, _w, pl in self.ops:
            for p in pl:
                if Parameter is not None and isinstance(p, Parameter) and not any(p is q for q in out):
                    out.append(p)
        return out

    def add(self, child: "Shadow", m: int):
        """Wire ``child`` in at numbered mode m: j-th visible input and j-th visible
        output of the child are connected to numbered wire m+j; every herald of the
        child becomes a private ancilla; loss wires become fresh wires."""
        civ, cov = child.in_vis(), child.out_vis()
        k = len(civ)
        tgt = [self.numbered[m + j] for j in range(k)]
        fresh: dict = {}
        allw = list(child.numbered) + list(child.extra)
        for w in allw:
            fresh[w] = next(_wire)
        self.ops.append(("link", tuple(tgt) + tuple(fresh[w] for w in civ), (k,)))
        for kind, ws, pl in child.ops:
            for w in ws:
                if w not in fresh:
                    fresh[w] = next(_wire)
                    allw.append(w)
            self.ops.append((kind, tuple(fresh[w] for w in ws), pl))
        self.ops.append(("link", tuple(fresh[w] for w in cov) + tuple(tgt), (k,)))
        for a, b, n in child.pairs:
            self.pairs.append((fresh[a], fresh[b], n))
            self.n_private += 1
        for w in allw:
            self.extra.append(fresh[w])
        self.n_loss += child.n_loss

    def compose(self, other: "Shadow") -> "Shadow":
        s = self.copy()
        ren = dict(zip(other.numbered, s.numbered))

        def f(w):
            if w not in ren:
                ren[w] = next(_wire)
                s.extra.append(ren[w])
            return ren[w]

        for kind, ws, pl in other.ops:
            s.ops.append((kind, tuple(f(w) for w in ws), pl))
        s.n_loss += other.n_loss
        return s

    # ---- evaluation
    def matrix(self):
        idx: dict = {}
        for w in self.numbered:
            idx.setdefault(w, len(idx))
        for w in self.extra:
            idx.setdefault(w, len(idx))
        for _kind, ws, _pl in self.ops:
            for w in ws:
                idx.setdefault(w, len(idx))
        for a, b, _n in self.pairs:
            idx.setdefault(a, len(idx))
            idx.setdefault(b, len(idx))
        n = len(idx)
        t = np.eye(n, dtype=complex)
        for kind, ws, pl in self.ops:
            ii = [idx[w] for w in ws]
            if kind == "bs":
                r, conv = val(pl[0]), pl[1]
                if not _is_real_number(r) or not 0 <= r <= 1:
                    raise ShadowInvalid(f"reflectivity {r!r}")
                r = float(r)              # the documented matrix of the *value*, whatever numeric type carries it
                # cos(theta) = sqrt(r), sin(theta) = sqrt(1 - r) for theta = arccos(sqrt(r)) in [0, pi/2] - written without
                # the detour through arccos, which loses sqrt(1 - r) altogether once sqrt(r) rounds to 1
                c, s_ = math.sqrt(r), math.sqrt(1.0 - r)
                m = (np.array([[c, 1j * s_], [1j * s_, c]]) if conv == "Rx"
                     else np.array([[c, s_], [s_, -c]], dtype=complex))
            elif kind == "ps":
                phi = val(pl[0])
                if not _is_number(phi):
                    raise ShadowInvalid(f"phase {phi!r}")
                if _is_real_number(phi):
                    phi = float(phi)
                    if not math.isfinite(phi):
                        raise ShadowInvalid(f"phase {phi!r}")      # exp(i phi) is no phase factor: U_full could not be unitary
                m = np.array([[np.exp(1j * phi)]])
            elif kind == "loss":
                l = val(pl[0])
                if not _is_real_number(l) or not 0 <= l <= 1:
                    raise ShadowInvalid(f"loss {l!r}")
                l = float(l)
                tt, s_ = math.sqrt(1 - l), math.sqrt(l)
                m = np.array([[tt, -s_], [s_, tt]], dtype=complex)
            elif kind == "perm":
                k = len(ii)
                m = np.zeros((k, k), dtype=complex)
                for a, b in enumerate(pl[0]):
                    m[b, a] = 1
            elif kind == "U":
                m = pl[0]
            elif kind == "link":
                kk = pl[0]
                src, dst = ii[:kk], ii[kk:]
                p = np.arange(n)
                for a, b in zip(src, dst):
                    if a != b:
                        p[a], p[b] = b, a
                # exchange contents of wire a and wire b
                t = t[p, :]
                continue
            else:  # pragma: no cover
                raise AssertionError(kind)
            rows = t[ii, :]
            t[ii, :] = m @ rows
        return t, idx


def _is_number(x) -> bool:
    return isinstance(x, (int, float, complex, np.number)) and not isinstance(x, bool)


def _is_real_number(x) -> bool:
    return isinstance(x, (int, float, np.integer, np.floating)) and not isinstance(x, bool)


def shadow_of(c):
    return _shadows.get(c)


# ----------------------------------------------------------------------------
# comparison of an implementation circuit with its shadow (quiescent points)
# ----------------------------------------------------------------------------

def impl_amp(u, heralds, n_modes, ins, outs):
    iv = [m for m in range(n_modes) if m not in heralds["input"]]
    ov = [m for m in range(n_modes) if m not in heralds["output"]]
    cols = [(g, x) for g, x in zip(iv, ins)] + list(heralds["input"].items())
    rows = [(g, x) for g, x in zip(ov, outs)] + list(heralds["output"].items())
    return boson.amp_idx(u, cols, rows)


def compare(c, rng=None, max_pairs: int = 40, max_vis_photons: int = 2, tol: float = 1e-8):
    """Returns (status, problems). status in {"compared","noshadow","tainted","big"};
    problems: list of (kind, detail) with kind in
    {"compile","invalid_not_raised","frame","shape","unitarity","amp"}."""
    sh = shadow_of(c)
    if sh is None:
        STATS["cmp_noshadow"] += 1
        return "noshadow", []
    if sh.tainted:
        STATS["cmp_tainted"] += 1
        return "tainted", []
    problems = []
    try:
        t, idx = sh.matrix()
        sh_err = None
    except ShadowInvalid as e:
        t, idx, sh_err = None, None, e
    try:
        u = c.U_full
        impl_err = None
    except Exception as e:  # noqa: BLE001
        u, impl_err = None, e
    STATS["cmp"] += 1
    if sh_err is not None:
        STATS["cmp_invalid_param"] += 1
        if impl_err is None:
            problems.append(("invalid_not_raised",
                             f"shadow: {sh_err}; implementation returned a matrix "
                             f"(finite={bool(np.isfinite(u).all())}, "
                             f"unitarity_dev={boson.is_unitary(np.nan_to_num(u)):.3g})"))
        elif type(impl_err).__name__ != "CircuitCompilationError":
            problems.append(("invalid_not_raised",
                             f"shadow: {sh_err}; implementation raised {type(impl_err).__name__}"))
        return "compared", problems
    if impl_err is not None:
        problems.append(("compile", f"implementation failed to compile: {impl_err!r} "
                                    f"cause={impl_err.__cause__!r}"))
        return "compared", problems
    h = c.heralds
    n = c.n_modes
    siv, sov = sh.in_vis(), sh.out_vis()
    iv = [m for m in range(n) if m not in h["input"]]
    ov = [m for m in range(n) if m not in h["output"]]
    exp_n = len(sh.numbered) + sh.n_private
    if n != exp_n:
        problems.append(("frame", f"n_modes impl {n} model {exp_n}"))
    if c.input_modes != len(siv):
        problems.append(("frame", f"input_modes impl {c.input_modes} model {len(siv)}"))
    if len(iv) != len(siv) or len(ov) != len(sov):
        problems.append(("frame", f"visible in/out impl {len(iv)}/{len(ov)} model {len(siv)}/{len(sov)}"))
    if sorted(h["input"].values()) != sorted(sh.h_in().values()) or \
            sorted(h["output"].values()) != sorted(sh.h_out().values()):
        problems.append(("frame", f"herald photon multiset impl in={sorted(h['input'].values())} "
                                  f"out={sorted(h['output'].values())} model {sorted(sh.h_in().values())}"))
    if u.shape != (n + sh.n_loss, n + sh.n_loss):
        problems.append(("shape", f"U_full shape {u.shape}, expected {n}+{sh.n_loss} loss modes"))
    dev = boson.is_unitary(u)
    if not dev <= 1e-9:
        problems.append(("unitarity", f"max|U_full^dag U_full - I| = {dev:.3g}"))
    if any(k == "frame" for k, _ in problems):
        return "compared", problems
    # heralded amplitudes on visible modes (loss wires / loss modes in vacuum)
    k = len(iv)
    hph = sum(h["input"].values())
    s_hin = [(idx[w], x) for w, x in sh.h_in().items()]
    s_hout = [(idx[w], x) for w, x in sh.h_out().items()]
    if hph > 5 or k > 12:
        STATS["cmp_big"] += 1
        nmax = 0 if hph > 7 else 1
    else:
        nmax = max_vis_photons
    if k <= 3 and hph <= 2 and nmax >= 2:
        nmax = 3
    if hph > MAX_COMPARE_PHOTONS:
        # a permanent of that size would take minutes: frame conditions only, counted (never judged)
        STATS["cmp_skipped_too_many_herald_photons"] += 1
        return "compared", problems
    nmax = min(nmax, MAX_COMPARE_PHOTONS - hph)
    n_amp = 0
    for nph in range(0, nmax + 1):
        basis = boson.fock(k, nph)
        pairs = [(i, o) for i in basis for o in basis]
        if len(pairs) > max_pairs:
            if rng is None:
                rng = np.random.default_rng(len(pairs))
            sel = rng.choice(len(pairs), size=max_pairs, replace=False)
            pairs = [pairs[j] for j in sel]
        bad = None
        for i, o in pairs:
            a = impl_amp(u, h, n, i, o)
            b = boson.amp_idx(t, [(idx[g], x) for g, x in zip(siv, i)] + s_hin,
                              [(idx[g], x) for g, x in zip(sov, o)] + s_hout)
            n_amp += 1
            if abs(a - b) > tol:
                bad = f"amplitude {list(i)}->{list(o)} (herald photons {hph}): impl {a:.6f} model {b:.6f}"
                break
        if bad:
            problems.append(("amp", bad))
            break
    STATS["cmp_amplitudes"] += n_amp
    return "compared", problems


def described_distribution(c, occ_vis, max_patterns: int = 2500):
    """What the circuit *as the user built it* (the wire model, not ``c.U_full``) does to the visible input ``occ_vis``:
    {visible output pattern: probability that the output heralds are met and exactly this pattern leaves the visible
    modes}, loss wires traced out. Returns (dist, n_loss_patterns_per_key, n_loss_wires) or None when there is no usable
    model (no shadow, tainted, invalid parameter, too large)."""
    sh = shadow_of(c)
    if sh is None or sh.tainted:
        return None
    try:
        t, idx = sh.matrix()
    except ShadowInvalid:
        return None
    siv, sov = sh.in_vis(), sh.out_vis()
    if len(siv) != len(occ_vis):
        return None
    hin, hout = sh.h_in(), sh.h_out()
    cols = [(idx[w], int(x)) for w, x in zip(siv, occ_vis)] + [(idx[w], x) for w, x in hin.items()]
    taken = {idx[w] for w in sov} | {idx[w] for w in hout}
    lossw = [i for i in range(t.shape[0]) if i not in taken]
    n_left = sum(occ_vis) + sum(hin.values()) - sum(hout.values())
    if n_left < 0:
        return {}, {}, len(lossw)
    total = sum(boson.n_fock(len(sov), nv) * boson.n_fock(len(lossw), n_left - nv) for nv in range(n_left + 1)
                if lossw or nv == n_left)
    if total > max_patterns or sum(occ_vis) + sum(hin.values()) > MAX_COMPARE_PHOTONS:
        return None
    h_rows = [(idx[w], x) for w, x in hout.items()]
    dist, npat = {}, {}
    for nv in range(n_left + 1):
        nl = n_left - nv
        if nl and not lossw:
            continue
        for vis in boson.fock(len(sov), nv):
            rows_v = [(idx[w], x) for w, x in zip(sov, vis)] + h_rows
            pr = 0.0
            lps = boson.fock(len(lossw), nl) if lossw else [()]
            for lp in lps:
                a = boson.amp_idx(t, cols, rows_v + [(i, x) for i, x in zip(lossw, lp)])
                pr += abs(a) ** 2
            dist[tuple(vis)] = pr
            npat[tuple(vis)] = len(lps)
    STATS["described_distributions"] += 1
    return dist, npat, len(lossw)


def scribble_probe(c):
    """Reads U_full and U, overwrites the returned arrays in place and reads again: the circuit must report the
    same matrices as before (what the API returns must not alias internal state). Returns a problem string or None."""
    try:
        a = c.U_full
        keep = a.copy()
        b = c.U
        if a.size:
            a *= 0
            a += 7.5
        if b.size:
            b[...] = -3.25
        again = c.U_full
        STATS["scribble_probes"] += 1
        if again.shape != keep.shape or not np.array_equal(again, keep):
            return "overwriting the array returned by U_full / U changed what the circuit reports afterwards"
    except Exception as e:  # noqa: BLE001
        STATS["scribble_probe_error:" + type(e).__name__] += 1
    return None


# ----------------------------------------------------------------------------
# cheap structural fingerprint (used for "a raising call changes nothing")
# ----------------------------------------------------------------------------

def spec_digest(spec, ids: bool = True) -> tuple:
    out = []
    for s in spec:
        name = type(s).__name__
        if name == "Group":
            out.append((name, s.name, s.mode_1, s.mode_2,
                        tuple(sorted(s.heralds["input"].items())),
                        tuple(sorted(s.heralds["output"].items())),
                        spec_digest(s.circuit_spec, ids)))
        else:
            vals = []
            for v in s.values():
                if Parameter is not None and isinstance(v, Parameter):
                    vals.append(("P", id(v) if ids else 0, repr(v.get())))
                elif isinstance(v, np.ndarray):
                    vals.append(("A", v.shape, v.tobytes()))
                elif isinstance(v, dict):
                    vals.append(("D", tuple(v.items())))
                elif isinstance(v, list):
                    vals.append(("L", tuple(v)))
                else:
                    vals.append(repr(v))
            out.append((name, tuple(vals)))
    return tuple(out)


def circuit_fingerprint(c, with_unitary: bool = False) -> tuple:
    """Observable + structural state of a circuit. Herald dicts as sorted items
    (order is not observable through any property)."""
    spec = c._Circuit__circuit_spec
    fp = (
        c.n_modes,
        tuple(sorted(c._Circuit__in_heralds.items())),
        tuple(sorted(c._Circuit__out_heralds.items())),
        tuple(sorted(c._Circuit__external_in_heralds.items())),
        tuple(sorted(c._Circuit__external_out_heralds.items())),
        tuple(sorted(c._Circuit__internal_modes)),
        spec_digest(spec),
    )
    if with_unitary:
        try:
            fp += (np.round(c.U_full, 12).tobytes(),)
        except Exception as e:  # noqa: BLE001
            fp += (("compile-error", type(e).__name__),)
    return fp


def observable_state(c) -> dict:
    d = {"n_modes": c.n_modes, "input_modes": c.input_modes,
         "heralds_in": dict(sorted(c.heralds["input"].items())),
         "heralds_out": dict(sorted(c.heralds["output"].items())),
         "internal": sorted(c._Circuit__internal_modes),
         "n_components": len(c._Circuit__circuit_spec)}
    return d


# ----------------------------------------------------------------------------
# installation
# ----------------------------------------------------------------------------

MUTATORS = ["bs", "ps", "loss", "barrier", "mode_swaps", "herald", "add"]
REWRITES = ["unpack_groups", "compress_mode_swaps", "remove_non_adjacent_bs"]
CREATORS = ["copy", "__add__"]


def _arg(a, k, i, key, default=None):
    return a[i] if len(a) > i else k.get(key, default)


def _apply_event(self, sh: Shadow, name, a, k, pre, res):
    if sh.retired and name in MUTATORS and name not in ("barrier",):
        # numbering is implementation-defined after unpack_groups: stop modelling
        sh.tainted = True
        STATS["shadow_retired_then_mutated"] += 1
        return
    if name == "bs":
        m1 = _arg(a, k, 0, "mode_1")
        m2 = _arg(a, k, 1, "mode_2")
        if m2 is None:
            m2 = int(m1) + 1      # "the next mode", as a number: fixed-width numpy integers would wrap at their limit
        r = _arg(a, k, 2, "reflectivity", 0.5)
        loss = _arg(a, k, 3, "loss", 0)
        conv = _arg(a, k, 4, "convention", "Rx")
        sh.bs(int(m1), int(m2), r, conv)
        if isinstance(loss, Parameter) or loss > 0:
            sh.loss(int(m1), loss)
            sh.loss(int(m2), loss)
    elif name == "ps":
        m = _arg(a, k, 0, "mode")
        phi = _arg(a, k, 1, "phi")
        loss = _arg(a, k, 2, "loss", 0)
        sh.ps(int(m), phi)
        if isinstance(loss, Parameter) or loss > 0:
            sh.loss(int(m), loss)
    elif name == "loss":
        sh.loss(int(_arg(a, k, 0, "mode")), _arg(a, k, 1, "loss", 0))
    elif name == "barrier":
        pass
    elif name == "mode_swaps":
        sh.swaps({int(x): int(y) for x, y in _arg(a, k, 0, "swaps").items()})
    elif name == "herald":
        n = _arg(a, k, 0, "n_photons")
        i = _arg(a, k, 1, "input_mode")
        o = _arg(a, k, 2, "output_mode")
        o = i if o is None else o
        sh.herald(int(n), int(i), int(o))
    elif name == "add":
        if pre is None:
            sh.tainted = True
            STATS["shadow_add_unmodelled_child"] += 1
            return
        if pre.tainted:
            sh.tainted = True
            return
        sh.add(pre, int(_arg(a, k, 1, "mode", 0)))
    elif name == "unpack_groups":
        sh.retired = sh.retired or sh.n_private > 0
    sh.version += 1
    if len(sh.events) < 60:
        sh.events.append(_describe(name, a, k))


def _describe(name, a, k):
    def d(x):
        if Circuit is not None and isinstance(x, Circuit):
            return f"<{type(x).__name__} n={x.n_modes} in={x.input_modes}>"
        if isinstance(x, np.ndarray):
            return f"<array {x.shape}>"
        if Parameter is not None and isinstance(x, Parameter):
            return f"Parameter({x.get()!r})"
        return repr(x)
    return name + "(" + ", ".join([d(x) for x in a] + [f"{kk}={d(v)}" for kk, v in k.items()]) + ")"


def _wrap_method(cls, name):
    import functools
    orig = cls.__dict__[name]

    @functools.wraps(orig)
    def w(self, *a, **k):
        global _depth
        if _depth > 0:
            _depth += 1
            try:
                res = orig(self, *a, **k)
            finally:
                _depth -= 1
            if name == "copy":   # creation events are tracked at any depth
                sh = _shadows.get(self)
                if sh is not None:
                    fz = _arg(a, k, 0, "freeze_parameters", False)
                    _shadows[res] = sh.frozen() if fz else sh.copy()
            return res
        sh = _shadows.get(self)
        pre = None
        if name in ("add", "__add__") and a and isinstance(a[0], Circuit):
            cs = _shadows.get(a[0])
            pre = cs.copy() if cs is not None else None
        fp_before = None
        if name in MUTATORS:
            if sh is not None and len(sh.ops) > 400 and (len(sh.ops) + STATS['events']) % (16 if len(sh.ops) <= 1500 else 256):
                STATS["reject_atomicity_sampled_out_on_long_circuit"] += 1   # (a fingerprint costs O(length): 1 call in 16)
            else:
                fp_before = circuit_fingerprint(self)
        _depth = 1
        try:
            res = orig(self, *a, **k)
        except BaseException as e:
            _depth = 0
            STATS["rejected_" + name] += 1
            if fp_before is not None:
                STATS["reject_atomicity_checks"] += 1
                if circuit_fingerprint(self) != fp_before:
                    report("C08", f"{_describe(name, a, k)} raised {type(e).__name__} "
                                  f"but the circuit changed", monitor="reject_atomicity",
                           witness={"events": list(sh.events) if sh else None,
                                    "after": observable_state(self)},
                           mechanism="rejected_call_changed_circuit")
                    # the shadow is NOT advanced and stays in force: what the circuit does from here on is still to be the
                    # composition of the calls that succeeded (C02, C01 judge the later observations)
            raise
        _depth = 0
        STATS["events"] += 1
        STATS["ev_" + name] += 1
        if name == "copy":
            if sh is not None:
                fz = _arg(a, k, 0, "freeze_parameters", False)
                _shadows[res] = sh.frozen() if fz else sh.copy()
            return res
        if name == "__add__":
            if sh is not None and pre is not None:
                _shadows[res] = sh.compose(pre)
                if sh.tainted or pre.tainted:
                    _shadows[res].tainted = True
            return res
        if sh is None:
            return res
        try:
            _apply_event(self, sh, name, a, k, pre, res)
        except Exception as e:  # noqa: BLE001  (model could not follow: count, never judge)
            sh.tainted = True
            STATS["shadow_model_errors"] += 1
            STATS["shadow_model_error:" + type(e).__name__ + ":" + name] += 1
        return res

    setattr(cls, name, w)


def install(lw_circuit_module=None):
    """Patch Circuit / Unitary. Idempotent."""
    global _installed, Circuit, Unitary, Parameter
    if _installed:
        return
    from lightworks.sdk.circuit.circuit import Circuit as _C
    from lightworks.sdk.circuit.parameters import Parameter as _P
    from lightworks.sdk.circuit.unitary import Unitary as _U
    Circuit, Unitary, Parameter = _C, _U, _P
    oi = Circuit.__init__

    def init(self, n_modes):
        oi(self, n_modes)
        _shadows[self] = Shadow(self.n_modes)
        STATS["circuits_created"] += 1

    init.__wrapped__ = oi
    Circuit.__init__ = init
    ou = Unitary.__init__

    def uinit(self, unitary, label="U"):
        global _depth
        _depth += 1
        try:
            ou(self, unitary, label)
        finally:
            _depth -= 1
        sh = Shadow(self.n_modes)
        sh.unitary(0, np.array(unitary))
        sh.events.append(f"Unitary(<array {np.shape(unitary)}>)")
        _shadows[self] = sh

    uinit.__wrapped__ = ou
    Unitary.__init__ = uinit
    for nme in MUTATORS + REWRITES + CREATORS:
        _wrap_method(Circuit, nme)

    osa = object.__setattr__

    def sa(self, name, value):
        if _depth == 0 and name.startswith("_Circuit__") and name not in MODELLED_PRIVATE_STATE:
            STATS["private_writes_of_unmodelled_attributes"] += 1      # e.g. a cache: the shadow stays in force
        elif _depth == 0 and name.startswith("_Circuit__"):
            sh = _shadows.get(self)
            if sh is not None:
                sh.tainted = True       # private write from outside the API
                STATS["private_writes"] += 1
        osa(self, name, value)

    Circuit.__setattr__ = sa
    _installed = True


def install_on_import():
    """Install as soon as ``lightworks.sdk.circuit`` has finished importing, i.e.
    before lightworks.qubit / lightworks.tomography create their shared gate
    instances (DESIGN 4a, import ordering)."""
    import importlib.abc
    import importlib.util
    import sys

    if "lightworks.sdk.circuit" in sys.modules and hasattr(sys.modules["lightworks.sdk.circuit"], "Unitary"):
        install()
        return

    target = "lightworks.sdk.circuit"

    class _Loader(importlib.abc.Loader):
        def __init__(self, inner):
            self.inner = inner

        def create_module(self, spec):
            return self.inner.create_module(spec)

        def exec_module(self, module):
            self.inner.exec_module(module)
            install()

    class _Finder(importlib.abc.MetaPathFinder):
        def find_spec(self, name, path, target_=None):
            if name != target:
                return None
            sys.meta_path.remove(self)
            try:
                spec = importlib.util.find_spec(name)
            finally:
                pass
            if spec is None or spec.loader is None:
                return None
            spec.loader = _Loader(spec.loader)
            return spec

    sys.meta_path.insert(0, _Finder())
