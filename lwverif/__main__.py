import argparse
import json
import os
import sys

from . import core


def main(argv=None) -> int:
    ap = argparse.ArgumentParser(prog="lwverif")
    sub = ap.add_subparsers(dest="cmd", required=True)
    r = sub.add_parser("run")
    r.add_argument("prop")
    r.add_argument("--tier", default=os.environ.get("VERIF_TIER", "quick"))
    r.add_argument("--seed", type=int, default=int(os.environ.get("VERIF_SEED", "0")))
    w = sub.add_parser("worker")
    w.add_argument("prop")
    w.add_argument("--tier", default="quick")
    w.add_argument("--seed", type=int, default=0)
    w.add_argument("--shard", type=int, default=0)
    w.add_argument("--nshards", type=int, default=1)
    w.add_argument("--out", required=True)
    w.add_argument("--replay")
    p = sub.add_parser("replay")
    p.add_argument("path")
    a = ap.parse_args(argv)
    if a.cmd == "run":
        return core.main_run(a.prop.upper(), a.tier, a.seed)
    if a.cmd == "worker":
        return core.worker_main(a.prop.upper(), a.tier, a.seed, a.shard, a.nshards, a.out)
    if a.cmd == "replay":
        d = json.loads(open(a.path).read())
        v = d["violations"][0]
        # re-run exactly the shard that produced the witness (deterministic from seed + shard); evidence and replay
        # files of a replay go to a scratch directory so that the registered evidence is not overwritten
        env = dict(os.environ, LWVERIF_ONLY_SHARD=str(v["shard"]),
                   LWVERIF_OUT=str(core.ROOT / ".work" / "replay"), LWVERIF_REPOTESTS="0")
        os.execve(sys.executable, [sys.executable, "-m", "lwverif", "run", v["property"], "--tier", v["tier"],
                                   "--seed", str(v["seed"])], env)
    return 2


if __name__ == "__main__":
    sys.exit(main())
