"""Runtime-monitoring machinery for Aegiq/lightworks (see /verif/DESIGN.md)."""
