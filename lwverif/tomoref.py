"""Exact noiseless 'experiments' for the tomography checks (DESIGN 3.5): outcome
frequencies computed with the own permanent from each requested circuit's
U_full and heralds, conditioned on heralds and one photon per qubit - not on
lightworks' Sampler, so a sampler defect can neither mask nor fake a verdict."""
from __future__ import annotations

import numpy as np

from . import boson, qubitref as qr


def dual_rail_probs(circuit, in_occ, State):
    """{State(dual-rail output): probability} for a visible input occupation list."""
    u, h, n = circuit.U_full, circuit.heralds, circuit.n_modes
    vis_in = [m for m in range(n) if m not in h["input"]]
    vis_out = [m for m in range(n) if m not in h["output"]]
    nq = len(vis_in) // 2
    cin = [(g, x) for g, x in zip(vis_in, in_occ) if x] + list(h["input"].items())
    hout = list(h["output"].items())
    out = {}
    for bits in qr.basis(nq):
        occ = qr.dual_rail(bits)
        a = boson.amp_idx(u, cin, [(g, x) for g, x in zip(vis_out, occ) if x] + hout)
        out[State(occ)] = abs(a) ** 2
    return out


def all_output_probs(circuit, in_occ, State, floor=1e-14):
    """Noiseless frequencies WITHOUT qubit post-selection: every visible output holding as many photons as there are qubits
    (heralds satisfied), including those outside the dual-rail subspace; entries below `floor` are not reported."""
    u, h, n = circuit.U_full, circuit.heralds, circuit.n_modes
    vis_in = [m for m in range(n) if m not in h["input"]]
    vis_out = [m for m in range(n) if m not in h["output"]]
    nq = len(vis_in) // 2
    cin = [(g, x) for g, x in zip(vis_in, in_occ) if x] + list(h["input"].items())
    hout = list(h["output"].items())
    out = {}
    for occ in boson.fock(len(vis_out), nq):
        a = boson.amp_idx(u, cin, [(g, x) for g, x in zip(vis_out, occ) if x] + hout)
        if abs(a) ** 2 > floor:
            out[State(list(occ))] = abs(a) ** 2
    return out


def dual_rail_matrix(circuit, nq):
    """Amplitude matrix on the dual-rail basis (heralds satisfied, one photon per qubit)."""
    m, _leak = qr.subspace_matrix(circuit.U_full, circuit.heralds, circuit.n_modes, nq,
                                  accept=qr.one_photon_per_qubit(nq))
    return m


def normalised_unitary(m):
    """m = c V with V unitary: returns (V up to phase, |c|, deviation from unitarity)."""
    d = m.shape[0]
    c2 = float(np.real(np.trace(m.conj().T @ m)) / d)
    if c2 <= 1e-18:
        return None, 0.0, 1.0
    v = m / np.sqrt(c2)
    dev = float(np.max(np.abs(v.conj().T @ v - np.eye(d))))
    return v, np.sqrt(c2), dev


MEAS = {"X": qr.textbook("H"), "Z": np.eye(2, dtype=complex),
        "Y": qr.textbook("H") @ qr.textbook("Z") @ qr.textbook("S")}


def rho_from_counts(counts_by_setting: dict, n: int):
    """Linear-inversion state tomography written independently of lightworks: counts_by_setting maps a measurement
    setting such as 'XZY' to {dual-rail bit tuple: count}. Identity factors are taken from the Z measurement of that
    qubit. Works for integer, float and unnormalised counts alike."""
    from itertools import product
    paulis = {"I": np.eye(2, dtype=complex), "X": qr.textbook("X"), "Y": qr.textbook("Y"), "Z": qr.textbook("Z")}
    rho = np.zeros((2 ** n, 2 ** n), dtype=complex)
    for p in product("IXYZ", repeat=n):
        setting = "".join("Z" if g == "I" else g for g in p)
        counts = counts_by_setting[setting]
        tot = sum(float(v) for v in counts.values())      # (counts may be fixed-width numpy integers)
        ev = 0.0
        for bits, cnt in counts.items():
            sign = 1
            for q, g in enumerate(p):
                if g != "I" and bits[q] == 1:
                    sign = -sign
            ev += sign * float(cnt)
        ev /= tot
        rho += ev * kron_all([paulis[g] for g in p]) / 2 ** n
    return rho


def kron_all(mats):
    out = np.array([[1.0 + 0j]])
    for m in mats:
        out = np.kron(out, m)
    return out
