import lightworks as lw, numpy as np, sys, traceback
import warnings; warnings.filterwarnings("ignore")
from refmodel import *
def gen_leaf(rng,maxn=4,allow_herald=True):
    n=int(rng.integers(1,maxn+1))
    c=lw.Circuit(n); r=Ref(n); log=[f"Circuit({n})"]
    for _ in range(int(rng.integers(1,4))):
        k=rng.integers(0,3)
        if k==0 and n>=2:
            p,q=map(int,rng.choice(n,2,replace=False)); rf=float(rng.uniform(0.1,0.9))
            c.bs(p,q,rf); r.bs(p,q,rf); log.append(f"bs({p},{q},{rf:.3f})")
        elif k==1:
            p=int(rng.integers(0,n)); phi=float(rng.uniform(0,6)); c.ps(p,phi); r.ps(p,phi); log.append(f"ps({p},{phi:.3f})")
        elif n>=2:
            pm=list(map(int,rng.permutation(n))); d={i:pm[i] for i in range(n)}
            c.mode_swaps(d); r.swaps(d); log.append(f"swaps({d})")
    if allow_herald and n>=2:
        nh=int(rng.integers(0,min(n-1,2)+1))
        ins=list(map(int,rng.choice(n,nh,replace=False))); outs=list(map(int,rng.choice(n,nh,replace=False)))
        for i,o in zip(ins,outs):
            ph=int(rng.integers(0,2))
            c.herald(ph,i,o); r.herald(ph,i,o); log.append(f"herald({ph},{i},{o})")
    return c,r,log
def gen_tree(rng,depth):
    if depth==0: return gen_leaf(rng)
    n=int(rng.integers(2,5))
    c=lw.Circuit(n); r=Ref(n); log=[f"Circuit({n})"]
    for _ in range(int(rng.integers(1,4))):
        if rng.random()<0.3:
            p,q=map(int,rng.choice(n,2,replace=False)); rf=float(rng.uniform(0.1,0.9))
            c.bs(p,q,rf); r.bs(p,q,rf); log.append(f"bs({p},{q},{rf:.3f})"); continue
        sc,sr,sl=gen_tree(rng,depth-1)
        k=sc.input_modes
        if k>n or k==0: continue
        m=int(rng.integers(0,n-k+1)); grp=bool(rng.random()<0.5)
        log.append(("add",m,grp,sl))
        c.add(sc,m,group=grp); r.add(sr,m)
    return c,r,log
def check(c,r):
    if c.input_modes!=len(r.in_vis): return f"input_modes {c.input_modes} vs {len(r.in_vis)}"
    if c.n_modes!=len(r.phys)+sum(1 for g in r.h_in if g not in r.phys): return f"n_modes {c.n_modes}"
    k=c.input_modes
    for n in range(0,3):
        for i in fock(k,n):
            for o in fock(k,n):
                a=impl_amplitude(c,i,o); b=r.amplitude(i,o)
                if abs(a-b)>1e-8: return f"amp {i}->{o}: impl {a:.4f} ref {b:.4f}"
    return None
seed=int(sys.argv[1]) if len(sys.argv)>1 else 0
N=int(sys.argv[2]) if len(sys.argv)>2 else 300
fails=[];errs=[]
for t in range(N):
    rng=np.random.default_rng(seed*100000+t)
    try:
        c,r,log=gen_tree(rng,2)
    except Exception as e:
        errs.append((t,repr(e),traceback.format_exc().splitlines()[-3:])); continue
    try: res=check(c,r)
    except Exception as e: res="EXC "+repr(e)
    if res: fails.append((t,res,log))
print("fails",len(fails),"errs",len(errs),"of",N)
for f in fails[:6]: print(f)
for e in errs[:5]: print(e)
