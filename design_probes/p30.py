import lightworks as lw, numpy as np, itertools
from lightworks import qubit, tomography as tomo
import warnings; warnings.filterwarnings("ignore")
from refmodel import *
from p29 import exact_outcomes
# base with top-level heralds (Ralph CNOT from the docs, heralds on modes 0 and 5)
c=lw.Circuit(6); th=np.arccos(1/3)
for m,t,p in [(3,np.pi/2,0),(0,th,0),(2,th,np.pi),(4,th,0),(3,np.pi/2,0)]:
    c.bs(m); c.ps(m+1,t); c.bs(m); c.ps(m+1,p)
c.herald(0,0); c.herald(0,5)
pre=lw.Circuit(4); pre.add(qubit.H(),0); pre.add(c)   # H on control then CNOT, top-level heralds only via c -> grouped -> internal
print("pre heralds",pre.heralds,pre._internal_modes,pre.input_modes)
got=[]
def exp(circs):
    got.extend(circs); return [exact_outcomes(x,[1,0,1,0]) for x in circs]
# (a) base with internal ancillas: fine
st=tomo.StateTomography(2,pre,exp); rho=st.process()
psi=[]
for bits in itertools.product([0,1],repeat=2):
    o=[]
    for b in bits: o+=[1,0] if b==0 else [0,1]
    psi.append(impl_amplitude(pre,[1,0,1,0],o))
psi=np.array(psi)/np.linalg.norm(psi)
print("(a) internal ancillas fid",st.fidelity(np.outer(psi,psi.conj())))
# (b) base with TOP-LEVEL heralds
base=c.copy(); 
st=tomo.StateTomography(2,base,exp)
try:
    rho=st.process()
    psi=[]
    for bits in itertools.product([0,1],repeat=2):
        o=[]
        for b in bits: o+=[1,0] if b==0 else [0,1]
        psi.append(impl_amplitude(base,[1,0,1,0],o))
    psi=np.array(psi)/np.linalg.norm(psi)
    print("(b) top-level heralds fid",st.fidelity(np.outer(psi,psi.conj())), "trace",np.trace(rho).real)
except Exception as e: print("(b) raised",repr(e)[:200])
