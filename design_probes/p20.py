import lightworks as lw, numpy as np, itertools, math, time
from lightworks import emulator as em
from scipy.stats import binom
import warnings; warnings.filterwarnings("ignore")
def thin(n,eta):
    return {k: math.comb(n,k)*eta**k*(1-eta)**(n-k) for k in range(n+1)}
def detect_dist(state,eta,pd,pc):
    per=[]
    for n in state:
        d={}
        for k,p in thin(n,eta).items():
            for dk,q in ((0,1-pd),(1,pd)):
                if q==0: continue
                v=k+dk
                if not pc: v=min(v,1)
                d[v]=d.get(v,0)+p*q
        per.append(d)
    out={}
    for combo in itertools.product(*[list(d.items()) for d in per]):
        s=tuple(v for v,_ in combo); p=np.prod([q for _,q in combo])
        out[s]=out.get(s,0)+p
    return out
def ref_accept(pdist,heralds,eta,pd,pc,ps,mind):
    acc={}
    for st,p in pdist.items():
        for o,q in detect_dist(list(st),eta,pd,pc).items():
            if any(o[m]!=n for m,n in heralds.items()): continue
            v=tuple(o[j] for j in range(len(o)) if j not in heralds)
            if ps(lw.State(list(v))) and sum(v)>=mind: acc[v]=acc.get(v,0)+p*q
    return acc
rng=np.random.default_rng(0)
alpha=1e-9; ntests=0; minp=1
t0=time.time()
for t in range(12):
    n=4; c=lw.Unitary(lw.random_unitary(n,int(rng.integers(1e6))))
    if t%2: c.loss(0,0.3)
    c.herald(int(t%2),1)
    ins=lw.State([1,1,0])
    eta=[1,0.9,0.5][t%3]; pd=[0,0.01,0.2][(t//3)%3]; pc=bool(t%2==0) or (t%2==1)  # herald 1 photon needs counting? no: only >1
    pc=bool(rng.random()<0.5)
    s=em.Sampler(c,ins,detector=em.Detector(efficiency=eta,p_dark=pd,photon_counting=pc))
    mind=int(rng.integers(0,3)); psf=lambda st: st[0]<=1
    N=50000
    r=s.sample_N_inputs(N,post_select=psf,min_detection=mind,seed=int(rng.integers(1e6)))
    pdist=s.probability_distribution
    if abs(sum(pdist.values())-1)>1e-6: print("skip unnormalised"); continue
    ref=ref_accept(pdist,c.heralds["output"],eta,pd,pc,psf,mind)
    tot=sum(ref.values()); got=sum(r.values())
    pv=min(1,2*min(binom.cdf(got,N,tot),binom.sf(got-1,N,tot))); ntests+=1; minp=min(minp,pv)
    for k in set(ref)|set(tuple(x) for x in r):
        cnt=r.get(lw.State(list(k)),0) if lw.State(list(k)) in r else 0
        p=ref.get(k,0)
        if p==0 and cnt>0: print("IMPOSSIBLE outcome",k,cnt); continue
        pv=min(1,2*min(binom.cdf(cnt,N,p),binom.sf(cnt-1,N,p))); ntests+=1; minp=min(minp,pv)
print("tests",ntests,"min p",minp,"bonferroni thr",alpha/ntests,"%.1fs"%(time.time()-t0))
