import lightworks as lw, numpy as np, sys
import warnings; warnings.filterwarnings("ignore")
from collections import Counter
res=Counter(); ex={}
def build(rng):
    n=int(rng.integers(2,7)); c=lw.Circuit(n)
    for _ in range(int(rng.integers(2,10))):
        k=int(rng.integers(0,8))
        if k==0 and n>=2:
            p,q=map(int,rng.choice(n,2,replace=False)); c.bs(p,q,float(rng.uniform(0,1)),convention=str(rng.choice(["Rx","H"])))
        elif k==1: c.ps(int(rng.integers(0,n)),float(rng.uniform(0,6)))
        elif k==2: c.loss(int(rng.integers(0,n)),float(rng.uniform(0,1)))
        elif k==3: c.barrier(list(map(int,rng.choice(n,int(rng.integers(1,n+1)),replace=False))))
        elif k in (4,5):
            sub=list(map(int,rng.choice(n,int(rng.integers(1,n+1)),replace=False))); pm=list(map(int,rng.permutation(sub)))
            c.mode_swaps(dict(zip(sub,pm)))
        elif k==6:
            m=int(rng.integers(1,n+1)); c.add(lw.Unitary(lw.random_unitary(m,int(rng.integers(1e6)))),int(rng.integers(0,n-m+1)),group=bool(rng.random()<0.5))
        else:
            m=int(rng.integers(1,n+1)); s=lw.Circuit(m)
            if m>=2: s.bs(0,m-1,0.3); s.mode_swaps({0:m-1,m-1:0})
            s.ps(0,1.0)
            c.add(s,int(rng.integers(0,n-m+1)),group=True)
    return c
for t in range(400):
    rng=np.random.default_rng(t); c=build(rng)
    U0=c.U_full; n0=len(c._get_circuit_spec())
    for name in ["compress_mode_swaps","remove_non_adjacent_bs","unpack_groups","copy","copyfrozen"]:
        d=c.copy()
        try:
            if name=="copy": d=c.copy()
            elif name=="copyfrozen": d=c.copy(freeze_parameters=True)
            else: getattr(d,name)()
            U1=d.U_full
            ok=U1.shape==U0.shape and np.allclose(U0,U1,atol=1e-9)
            extra=True
            sp=d._get_circuit_spec()
            if name=="compress_mode_swaps": extra=len(sp)<=n0
            if name=="remove_non_adjacent_bs":
                def chk(sp): 
                    return all((abs(s.mode_1-s.mode_2)==1) if type(s).__name__=="BeamSplitter" else (chk(s.circuit_spec) if type(s).__name__=="Group" else True) for s in sp)
                extra=chk(sp)
            if name=="unpack_groups": extra=not any(type(s).__name__=="Group" for s in sp)
            res[(name,ok,extra)]+=1
            if not(ok and extra): ex.setdefault((name,ok,extra),t)
        except Exception as e:
            res[(name,"EXC",type(e).__name__)]+=1; ex.setdefault((name,"EXC"),(t,repr(e),repr(e.__cause__)))
for k,v in sorted(res.items(),key=str): print(k,v)
print(ex)
