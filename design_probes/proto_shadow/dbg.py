import sys; sys.path.insert(0,"/tmp/proto")
import warnings; warnings.filterwarnings("ignore")
import shadowproto as sp; sp.install()
import lightworks as lw
from lightworks import qubit
for name,mk in [("CZ",qubit.CZ),("CZ_H",qubit.CZ_Heralded),("CNOT",qubit.CNOT),("CNOT_H",qubit.CNOT_Heralded),("CCZ",qubit.CCZ),("H",qubit.H),("SWAP",lambda:qubit.SWAP((0,1),(2,3)))]:
    sp.STATS["violations"].clear()
    c=mk(); sp.compare(c,name); print(name,sp.STATS["violations"][:1], "tainted" if sp.shadow_of(c).tainted else "")
print(sp.STATS.get("model_errors"))
