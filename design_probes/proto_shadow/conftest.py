import sys, json, gc
sys.path.insert(0,"/tmp/proto")
import shadowproto as sp
sp.install()
import lightworks as lw
from lightworks.sdk.circuit.circuit import Circuit
import pytest
@pytest.hookimpl(trylast=True)
def pytest_runtest_teardown(item):
    for c in [o for o in gc.get_objects() if isinstance(o,Circuit)][:40]:
        try: sp.compare(c,where=item.nodeid)
        except Exception as e: sp.STATS.setdefault("compare_errors",[]).append((item.nodeid,repr(e)))
def pytest_sessionfinish(session):
    s=dict(sp.STATS); v=s.pop("violations"); 
    print("\nSHADOW STATS",{k:(x if not isinstance(x,list) else len(x)) for k,x in s.items()},"violations",len(v))
    seen=set()
    for w in v:
        key=(w[0].split("::")[-1],w[1][:20])
        if key in seen: continue
        seen.add(key); print("  V",w[0],w[1])
        if len(seen)>25: break
    for k in ("model_errors","compare_errors"):
        for e in list({str(x) for x in s.get(k,[])})[:8]: print("  ",k,e)
