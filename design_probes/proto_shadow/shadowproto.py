"""Throw-away feasibility prototype: shadow model attached to every Circuit from outside."""
import numpy as np, math, weakref, threading, itertools, functools, os, sys, json
import lightworks as lw
from lightworks.sdk.circuit.circuit import Circuit
from lightworks.sdk.circuit.unitary import Unitary
from lightworks.sdk.circuit.parameters import Parameter

_wire=itertools.count()
STATS={"events":0,"checks":0,"skipped_big":0,"tainted":0,"noshadow":0,"violations":[],"nested":0,"barrier_alias":0}
_tl=threading.local()
def depth(): return getattr(_tl,"d",0)

def val(x): return x.get() if isinstance(x,Parameter) else x

class Shadow:
    def __init__(self,n):
        self.numbered=[next(_wire) for _ in range(n)]
        self.ops=[]            # (kind, wires, payload)
        self.pairs=[]          # (in_wire,out_wire,n)
        self.private=set()     # wires hidden from numbering
        self.extra=[]          # private/loss wires in creation order
        self.tainted=False
    def copy(self):
        s=Shadow(0); s.numbered=list(self.numbered); s.ops=list(self.ops); s.pairs=list(self.pairs)
        s.private=set(self.private); s.extra=list(self.extra); s.tainted=self.tainted; return s
    def frozen(self):
        s=self.copy(); s.ops=[(k,w,tuple(val(p) for p in pl)) for k,w,pl in self.ops]; return s
    # --- ops by numbered position
    def bs(self,p,q,r,conv): self.ops.append(("bs",(self.numbered[p],self.numbered[q]),(r,conv)))
    def ps(self,p,phi): self.ops.append(("ps",(self.numbered[p],),(phi,)))
    def loss(self,p,l):
        w=next(_wire); self.extra.append(w); self.ops.append(("loss",(self.numbered[p],w),(l,)))
    def swaps(self,d):
        ks=sorted(d)
        if ks: self.ops.append(("perm",tuple(self.numbered[k] for k in ks),(tuple(ks.index(d[k]) for k in ks),)))
    def unitary(self,p,U): self.ops.append(("U",tuple(self.numbered[p+i] for i in range(U.shape[0])),(np.array(U,dtype=complex),)))
    def herald(self,n,i,o): self.pairs.append((self.numbered[i],self.numbered[o],n))
    def h_in(self): return {a:n for a,b,n in self.pairs}
    def h_out(self): return {b:n for a,b,n in self.pairs}
    def in_vis(self): h=self.h_in(); return [w for w in self.numbered if w not in h]
    def out_vis(self): h=self.h_out(); return [w for w in self.numbered if w not in h]
    def add(self,child,m):
        civ,cov=child.in_vis(),child.out_vis(); k=len(civ)
        tgt=[self.numbered[m+j] for j in range(k)]
        ren_in=dict(zip(civ,tgt)); ren_out=dict(zip(cov,tgt))
        # child's wires: each wire label in child is both a column (input side) and row (output side) label
        # generic embedding: rename child's wires; but input-port wire a and output-port wire b for the same parent wire may differ
        # => realise as: perm_in (parent wire -> child input wire), child ops on child's own (fresh-renamed) wires, perm_out back.
        fresh={}
        def f(w):
            if w not in fresh: fresh[w]=next(_wire)
            return fresh[w]
        allw=list(child.numbered)+list(child.extra)
        for w in allw: f(w)
        # link: parent tgt[j] --> child civ[j] at input; child cov[j] --> parent tgt[j] at output
        self.ops.append(("link",tuple(tgt)+tuple(fresh[w] for w in civ),(len(tgt),)))
        for kind,ws,pl in child.ops: self.ops.append((kind,tuple(fresh[w] for w in ws),pl))
        self.ops.append(("link",tuple(fresh[w] for w in cov)+tuple(tgt),(len(tgt),)))
        # heralds -> private
        for a,b,n in child.pairs: self.pairs.append((fresh[a],fresh[b],n))
        for w in allw:
            self.extra.append(fresh[w])
    def compose(self,other):
        s=self.copy(); ren=dict(zip(other.numbered,s.numbered))
        def f(w):
            if w not in ren: ren[w]=next(_wire); s.extra.append(ren[w])
            return ren[w]
        for kind,ws,pl in other.ops: s.ops.append((kind,tuple(f(w) for w in ws),pl))
        return s
    # --- evaluation
    def matrix(self):
        wires=list(self.numbered)+[w for w in self.extra]
        # include link-introduced wires
        idx={}
        for w in wires: idx.setdefault(w,len(idx))
        for kind,ws,pl in self.ops:
            for w in ws: idx.setdefault(w,len(idx))
        N=len(idx); T=np.eye(N,dtype=complex)
        for kind,ws,pl in self.ops:
            ii=[idx[w] for w in ws]
            if kind=="bs":
                r,conv=val(pl[0]),pl[1]; th=math.acos(math.sqrt(r)); c,s_=math.cos(th),math.sin(th)
                M=np.array([[c,1j*s_],[1j*s_,c]]) if conv=="Rx" else np.array([[c,s_],[s_,-c]])
            elif kind=="ps": M=np.array([[np.exp(1j*val(pl[0]))]])
            elif kind=="loss":
                l=val(pl[0]); t=math.sqrt(1-l); s_=math.sqrt(l); M=np.array([[t,-s_],[s_,t]])
            elif kind=="perm":
                k=len(ii); M=np.zeros((k,k)); 
                for a,b in enumerate(pl[0]): M[b,a]=1
            elif kind=="U": M=pl[0]
            elif kind=="link":
                # move amplitude from wires ws to wires pl[0] (swap contents)
                kk=pl[0]; jj=ii[kk:]; 
                E=np.eye(N,dtype=complex)
                for a,b in zip(ii[:kk],jj):
                    if a!=b:
                        E[a,a]=0;E[b,b]=0;E[b,a]=1;E[a,b]=1
                T=E@T; continue
            E=np.eye(N,dtype=complex); E[np.ix_(ii,ii)]=M; T=E@T
        return T,idx

def perm_ryser(A):
    n=A.shape[0]
    if n==0: return 1+0j
    tot=0j
    for mask in range(1,1<<n):
        cols=[j for j in range(n) if mask>>j&1]
        tot+=(-1)**(n-len(cols))*np.prod(A[:,cols].sum(axis=1))
    return tot
def amp(T,cols,rows):
    c=[i for i,n in cols for _ in range(n)]; r=[i for i,n in rows for _ in range(n)]
    if len(c)!=len(r): return 0j
    f=1
    for _,n in cols+rows: f*=math.factorial(n)
    return perm_ryser(T[np.ix_(r,c)])/math.sqrt(f)
def fock(N,n):
    if N==0:
        if n==0: yield []
        return
    if N==1: yield [n]; return
    for v in range(n+1):
        for rest in fock(N-1,n-v): yield [v]+rest

_shadows=weakref.WeakKeyDictionary()
def shadow_of(c): return _shadows.get(c)

def compare(c,where=""):
    sh=shadow_of(c)
    if sh is None: STATS["noshadow"]+=1; return
    if sh.tainted: STATS["tainted"]+=1; return
    try: U=c.U_full
    except Exception: return     # compile errors are C10's business
    h=c.heralds; n=c.n_modes
    T,idx=sh.matrix()
    iv=[m for m in range(n) if m not in h["input"]]; ov=[m for m in range(n) if m not in h["output"]]
    siv,sov=sh.in_vis(),sh.out_vis()
    prob=None
    if len(iv)!=len(siv) or len(ov)!=len(sov): prob=f"visible count impl {len(iv)} shadow {len(siv)}"
    elif sorted(h["input"].values())!=sorted(sh.h_in().values()): prob="herald multiset"
    else:
        hph=sum(h["input"].values()); k=len(iv)
        nloss=U.shape[0]-n
        if k>6 or hph>4: STATS["skipped_big"]+=1; maxn=1 if k<=10 and hph<=3 else 0
        else: maxn=2
        for nph in range(0,maxn+1):
            if nloss and nph+hph>0 and True:
                pass
            for i in fock(k,nph):
                for o in fock(k,nph):
                    a=amp(U,[(g,x) for g,x in zip(iv,i)]+list(h["input"].items()),[(g,x) for g,x in zip(ov,o)]+list(h["output"].items()))
                    b=amp(T,[(idx[g],x) for g,x in zip(siv,i)]+[(idx[w],x) for w,x in sh.h_in().items()],[(idx[g],x) for g,x in zip(sov,o)]+[(idx[w],x) for w,x in sh.h_out().items()])
                    if abs(a-b)>1e-8: prob=f"amp {i}->{o} impl {a:.4f} shadow {b:.4f}"; break
                if prob: break
            if prob: break
    STATS["checks"]+=1
    if prob: STATS["violations"].append((where,prob,repr(c),os.environ.get("PYTEST_CURRENT_TEST")))

def mutator(name):
    orig=getattr(Circuit,name)
    @functools.wraps(orig)
    def w(self,*a,**k):
        d=depth()
        if d>0:
            STATS["nested"]+=1
            _tl.d=d+1
            try: return orig(self,*a,**k)
            finally: _tl.d=d
        sh=shadow_of(self)
        pre=None
        if name=="add" and a and isinstance(a[0],Circuit):
            cs=shadow_of(a[0]); pre=cs.copy() if cs is not None else None
        if name=="__add__" and a and isinstance(a[0],Circuit):
            cs=shadow_of(a[0]); pre=cs.copy() if cs is not None else None
        _tl.d=1; _tl.owner=self
        try: res=orig(self,*a,**k)
        finally: _tl.d=0; _tl.owner=None
        STATS["events"]+=1
        if sh is None: return res
        try:
            apply_event(self,sh,name,a,k,pre,res)
        except Exception as e:
            sh.tainted=True; STATS.setdefault("model_errors",[]).append((name,repr(e)))
        return res
    setattr(Circuit,name,w)

def apply_event(self,sh,name,a,k,pre,res):
    def arg(i,key,default=None):
        return a[i] if len(a)>i else k.get(key,default)
    if name=="bs":
        m1=arg(0,"mode_1"); m2=arg(1,"mode_2"); 
        if m2 is None: m2=m1+1
        r=arg(2,"reflectivity",0.5); loss=arg(3,"loss",0); conv=arg(4,"convention","Rx")
        sh.bs(int(m1),int(m2),r,conv)
        if isinstance(loss,Parameter) or loss>0: sh.loss(int(m1),loss); sh.loss(int(m2),loss)
    elif name=="ps":
        m=arg(0,"mode"); phi=arg(1,"phi"); loss=arg(2,"loss",0); sh.ps(int(m),phi)
        if isinstance(loss,Parameter) or loss>0: sh.loss(int(m),loss)
    elif name=="loss": sh.loss(int(arg(0,"mode")),arg(1,"loss",0))
    elif name=="barrier": pass
    elif name=="mode_swaps": sh.swaps({int(x):int(y) for x,y in arg(0,"swaps").items()})
    elif name=="herald":
        n=arg(0,"n_photons"); i=arg(1,"input_mode"); o=arg(2,"output_mode"); o=i if o is None else o; sh.herald(n,int(i),int(o))
    elif name=="add":
        if pre is None: sh.tainted=True; return
        m=arg(1,"mode",0)
        # after add, child heralds become private: numbered list unchanged
        sh.add(pre,int(m))
    elif name=="copy":
        fz=arg(0,"freeze_parameters",False)
        _shadows[res]=sh.frozen() if fz else sh.copy()
    elif name=="__add__":
        if pre is None: return
        _shadows[res]=sh.compose(pre)
    elif name=="unpack_groups":
        # all wires incl. private become numbered, in the implementation's full-mode order -> cannot know order from shadow alone
        sh.tainted=True   # prototype: stop modelling numbering after unpack (observables still comparable, numbering not)
    # rewrites: nothing

def install():
    oi=Circuit.__init__
    def init(self,n_modes):
        oi(self,n_modes)
        if depth()==0 or True:
            _shadows[self]=Shadow(self.n_modes)
    Circuit.__init__=init
    ou=Unitary.__init__
    def uinit(self,unitary,label="U"):
        d=depth(); _tl.d=d+1
        try: ou(self,unitary,label)
        finally: _tl.d=d
        sh=Shadow(self.n_modes); sh.unitary(0,np.array(unitary)); _shadows[self]=sh
    Unitary.__init__=uinit
    for nme in ["bs","ps","loss","barrier","mode_swaps","herald","add","copy","__add__","unpack_groups","compress_mode_swaps","remove_non_adjacent_bs"]:
        mutator(nme)
    oe=Circuit._add_empty_mode
    def aem(self,spec,mode):
        owner=getattr(_tl,"owner",None)
        if owner is not None and self is not owner and shadow_of(self) is not None and getattr(_tl,"argid",None)==id(self):
            STATS["barrier_alias"]+=1
        return oe(self,spec,mode)
    Circuit._add_empty_mode=aem
    osa=object.__setattr__
    def sa(self,name,value):
        if name.startswith("_Circuit__") and depth()==0:
            sh=_shadows.get(self)
            if sh is not None and name!="_Circuit__n_modes" or (sh is not None and name=="_Circuit__circuit_spec"):
                # init writes happen before shadow exists
                sh.tainted=True
        osa(self,name,value)
    Circuit.__setattr__=sa
