import lightworks as lw, numpy as np, sys
import matplotlib; matplotlib.use("Agg"); import matplotlib.pyplot as plt
import warnings; warnings.filterwarnings("ignore")
from collections import Counter
res=Counter(); ex={}
def fp(c):
    return (c.n_modes,c.input_modes,str(c.heralds),str(c._internal_modes),repr(c._get_circuit_spec()),str(c._external_heralds))
def base(rng):
    c=lw.Circuit(4); c.bs(0); c.ps(1,0.3)
    s=lw.Circuit(3); s.bs(0); s.bs(1); s.herald(int(rng.integers(0,2)),int(rng.integers(0,3)))
    c.add(s,int(rng.integers(0,3)))
    c.loss(0,0.1)
    return c
bad_calls=[
 ("bs mode oob",lambda c:c.bs(0,9)),("bs same",lambda c:c.bs(1,1)),("bs neg",lambda c:c.bs(-1,0)),("bs refl",lambda c:c.bs(0,1,reflectivity=1.2)),
 ("bs conv",lambda c:c.bs(0,1,convention="Q")),("bs loss",lambda c:c.bs(0,1,loss=2)),("bs loss type",lambda c:c.bs(0,1,loss="a")),("bs float mode",lambda c:c.bs(0.5,1)),
 ("bs bool mode",lambda c:c.bs(True,2)),("bs param mode",lambda c:c.bs(lw.Parameter(0),1)),
 ("ps oob",lambda c:c.ps(7,0.1)),("ps loss",lambda c:c.ps(0,0.1,loss=-0.1)),("loss oob",lambda c:c.loss(9,0.1)),("loss val",lambda c:c.loss(0,1.1)),
 ("swaps incomplete",lambda c:c.mode_swaps({0:1})),("swaps oob",lambda c:c.mode_swaps({0:8,8:0})),("barrier oob",lambda c:c.barrier([0,9])),
 ("herald dup in",lambda c:(c.herald(0,0),c.herald(0,0,1))),("herald oob",lambda c:c.herald(0,11)),("herald type",lambda c:c.herald(0.5,0)),("herald bool",lambda c:c.herald(True,1)),
 ("add oversize",lambda c:c.add(lw.Circuit(6))),("add oob",lambda c:c.add(lw.Circuit(2),3)),("add type",lambda c:c.add(np.eye(2))),("add neg",lambda c:c.add(lw.Circuit(2),-1)),
 ("plus size",lambda c:c+lw.Circuit(2)),("unitary nonunit",lambda c:c.add(lw.Unitary(np.ones((2,2))))),
]
for t in range(20):
    rng=np.random.default_rng(t)
    for name,f in bad_calls:
        c=base(rng); b=fp(c)
        if name=="herald dup in":
            c.herald(0,0); b=fp(c)
            try: c.herald(0,0,1); res[(name,"ACCEPTED")]+=1; continue
            except Exception as e: pass
        else:
            try: f(c); res[(name,"ACCEPTED")]+=1; ex.setdefault(name+" accepted",t); continue
            except Exception as e: et=type(e).__name__
        same=fp(c)==b
        res[(name,"unchanged" if same else "CHANGED")]+=1
        if not same: ex.setdefault(name,(t,et))
for k,v in sorted(res.items(),key=str): print(k,v)
print(ex)
# display options
c=base(np.random.default_rng(0)); nvis=c.n_modes-len(c._internal_modes)
for dt in ("svg","mpl"):
    try: lw.Display(c,mode_labels=["a"*10]*nvis,display_type=dt); print(dt,"labels ok")
    except Exception as e: print(dt,"labels raised",repr(e))
    try: lw.Display(c,mode_labels=list(range(nvis)),display_type=dt); print(dt,"int labels ok")
    except Exception as e: print(dt,"int labels raised",repr(e))
    for bad in (["a"]*(nvis+1),["a"]*(nvis-1),["a"]*c.n_modes,[]):
        try: lw.Display(c,mode_labels=bad,display_type=dt); print(dt,"bad labels ACCEPTED",len(bad))
        except lw.DisplayError: print(dt,"bad labels DisplayError",len(bad))
        except Exception as e: print(dt,"bad labels other",type(e).__name__,len(bad))
    plt.close("all")
for bad in ("png","SVG",None,1):
    try: lw.Display(c,display_type=bad); print("bad type accepted",bad)
    except lw.DisplayError: print("bad type DisplayError",bad)
    except Exception as e: print("bad type other",type(e).__name__)
