"""Independent wire-labelled reference model for circuit construction (probe)."""
import numpy as np, itertools, math

def perm_ryser(A):
    n=A.shape[0]
    if n==0: return 1.0+0j
    tot=0j
    for mask in range(1,1<<n):
        cols=[j for j in range(n) if mask>>j&1]
        rs=A[:,cols].sum(axis=1)
        tot+=(-1)**(n-len(cols))*np.prod(rs)
    return tot

def amp(T, cols_occ, rows_occ):
    """cols_occ: list of (col_idx, n), rows_occ: list of (row_idx,n)"""
    c=[i for i,n in cols_occ for _ in range(n)]
    r=[i for i,n in rows_occ for _ in range(n)]
    if len(c)!=len(r): return 0j
    f=1
    for _,n in cols_occ: f*=math.factorial(n)
    for _,n in rows_occ: f*=math.factorial(n)
    return perm_ryser(T[np.ix_(r,c)])/math.sqrt(f)

class Ref:
    def __init__(self,n):
        self.T=np.eye(n,dtype=complex)
        self.phys=list(range(n))      # numbered modes -> global idx
        self.h_in={}   # global col -> n (all heralds incl. internal)
        self.h_out={}  # global row -> n
        self.pairs=[]  # (col,row,n) in declaration order
        self.loss=[]   # global idx of loss modes
    def _grow(self,k=1):
        N=self.T.shape[0]
        T=np.eye(N+k,dtype=complex); T[:N,:N]=self.T; self.T=T
        return list(range(N,N+k))
    def _apply(self,idx,M):
        N=self.T.shape[0]
        E=np.eye(N,dtype=complex)
        E[np.ix_(idx,idx)]=M
        self.T=E@self.T
    def bs(self,p,q,r,conv="Rx"):
        th=math.acos(math.sqrt(r)); c,s=math.cos(th),math.sin(th)
        M=np.array([[c,1j*s],[1j*s,c]]) if conv=="Rx" else np.array([[c,s],[s,-c]])
        self._apply([self.phys[p],self.phys[q]],M)
    def ps(self,p,phi): self._apply([self.phys[p]],np.array([[np.exp(1j*phi)]]))
    def loss_(self,p,l):
        (g,)=self._grow(); self.loss.append(g)
        t=math.sqrt(1-l); s=math.sqrt(l)
        self._apply([self.phys[p],g],np.array([[t,-s],[s,t]]))
    def swaps(self,d):
        ks=sorted(d); 
        M=np.zeros((len(ks),len(ks)))
        for a in ks: M[ks.index(d[a]),ks.index(a)]=1
        self._apply([self.phys[k] for k in ks],M)
    def unitary(self,p,U):
        k=U.shape[0]; self._apply([self.phys[p+i] for i in range(k)],U)
    def herald(self,n,i,o):
        ci,ro=self.phys[i],self.phys[o]
        assert ci not in self.h_in and ro not in self.h_out
        self.h_in[ci]=n; self.h_out[ro]=n; self.pairs.append((ci,ro,n))
    @property
    def in_vis(self): return [g for g in self.phys if g not in self.h_in]
    @property
    def out_vis(self): return [g for g in self.phys if g not in self.h_out]
    def add(self,child,m):
        """child: Ref. wire child's visible in/out ports to numbered modes m.."""
        civ,cov=child.in_vis,child.out_vis
        k=len(civ); assert len(cov)==k
        N_c=child.T.shape[0]
        tgt=[self.phys[m+j] for j in range(k)]
        # all other child indices (heralded in cols / heralded out rows / loss) need fresh idx
        other_cols=[c for c in range(N_c) if c not in civ]
        other_rows=[r for r in range(N_c) if r not in cov]
        assert len(other_cols)==len(other_rows)
        fresh=self._grow(len(other_cols))
        sin={c:t for c,t in zip(civ,tgt)}; sout={r:t for r,t in zip(cov,tgt)}
        # pair heralds: declaration order pairs (col,row,n) -> same fresh idx
        fi=iter(fresh); used_c=set(); used_r=set()
        for (c,r,n) in child.pairs:
            f=next(fi); sin[c]=f; sout[r]=f; used_c.add(c); used_r.add(r)
            self.h_in[f]=n; self.h_out[f]=n; self.pairs.append((f,f,n))
        rem_c=[c for c in other_cols if c not in used_c]; rem_r=[r for r in other_rows if r not in used_r]
        # remaining are loss modes: col==row idx in child
        assert rem_c==rem_r, (rem_c,rem_r)
        for c in rem_c:
            f=next(fi); sin[c]=f; sout[c]=f; self.loss.append(f)
        N=self.T.shape[0]
        E=np.eye(N,dtype=complex)
        G=sorted(set(sin.values()))
        for g in G: E[g,g]=0
        for r in range(N_c):
            for c in range(N_c):
                E[sout[r],sin[c]]=child.T[r,c]
        self.T=E@self.T
    def n_numbered(self): return len(self.phys)
    def amplitude(self,ins,outs):
        iv,ov=self.in_vis,self.out_vis
        cols=[(g,n) for g,n in zip(iv,ins)]+list(self.h_in.items())
        rows=[(g,n) for g,n in zip(ov,outs)]+list(self.h_out.items())
        return amp(self.T,cols,rows)

def impl_amplitude(circ,ins,outs):
    """amplitude from lightworks circuit's U_full + heralds with own permanent; loss modes vacuum"""
    U=circ.U_full; h=circ.heralds; n=circ.n_modes
    iv=[m for m in range(n) if m not in h["input"]]; ov=[m for m in range(n) if m not in h["output"]]
    cols=[(g,k) for g,k in zip(iv,ins)]+list(h["input"].items())
    rows=[(g,k) for g,k in zip(ov,outs)]+list(h["output"].items())
    return amp(U,cols,rows)

def fock(N,n):
    if N==0:
        if n==0: yield []
        return
    if N==1: yield [n]; return
    for v in range(n+1):
        for rest in fock(N-1,n-v): yield [v]+rest
