import lightworks as lw, numpy as np, itertools, math, time
from lightworks import emulator as em
from scipy.stats import binom
import warnings; warnings.filterwarnings("ignore")
from p20 import detect_dist, ref_accept
from collections import Counter
rng=np.random.default_rng(1); res=Counter(); minp=1; nt=0
def bt(cnt,N,p):
    if p<=0: return 0.0 if cnt>0 else 1.0
    if p>=1: return 1.0 if cnt==N else 0.0
    return min(1,2*min(binom.cdf(cnt,N,p),binom.sf(cnt-1,N,p)))
for t in range(30):
    n=4; c=lw.Unitary(lw.random_unitary(n,int(rng.integers(1e6))))
    if t%3==0: c.loss(1,0.4)
    hn=int(rng.integers(0,2)); c.herald(hn,int(rng.integers(0,n)))
    ins=lw.State([1,1,0] if t%2 else [2,0,1])
    pc=bool(rng.random()<0.5)
    s=em.Sampler(c,ins,detector=em.Detector(photon_counting=pc))
    mind=int(rng.integers(0,4)); ps=lw.PostSelection(); ps.add((0,1),(0,1,2))
    N=20000; seed=int(rng.integers(1e6))
    try: r=s.sample_N_outputs(N,post_select=ps,min_detection=mind,seed=seed)
    except em.SamplerError as e: res["SamplerError"]+=1; continue
    res[("N exact",sum(r.values())==N)]+=1
    r2=s.sample_N_outputs(N,post_select=ps,min_detection=mind,seed=seed); res[("seed repro",dict(r)==dict(r2))]+=1
    pdist=s.probability_distribution
    ref=ref_accept(pdist,c.heralds["output"],1,0,pc,ps.validate,mind); tot=sum(ref.values())
    for st,cnt in r.items():
        ok=len(st)==3 and ps.validate(st) and st.n_photons>=mind and (pc or max(st)<=1)
        res[("state valid",ok)]+=1
    for k in set(ref)|set(tuple(x) for x in r):
        cnt=r[lw.State(list(k))] if lw.State(list(k)) in r else 0
        p=ref.get(k,0)/tot; pv=bt(cnt,N,p); nt+=1; minp=min(minp,pv)
    # quick sampler (lossless only relevant for photon preservation)
    q=em.QuickSampler(c,ins,photon_counting=pc,post_select=ps)
    try:
        rq=q.sample_N_outputs(N,seed=seed)
        res[("QS N exact",sum(rq.values())==N)]+=1
        pq=q.probability_distribution
        for k,p in pq.items():
            pv=bt(rq.get(k,0) if k in rq else 0,N,p); nt+=1; minp=min(minp,pv)
        for st in rq: res[("QS state valid",len(st)==3 and ps.validate(st) and st.n_photons==ins.n_photons and (pc or max(st)<=1))]+=1
    except Exception as e: res[("QS exc",type(e).__name__)]+=1
print(dict(res)); print("tests",nt,"min p",minp)
