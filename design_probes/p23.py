import lightworks as lw, numpy as np, sys, math
import matplotlib; matplotlib.use("Agg"); import matplotlib.pyplot as plt
from lightworks import emulator as em
from lightworks.emulator.results import SimulationResult, SamplingResult
from lightworks.emulator.state import AnnotatedState
from lightworks.sdk.utils import add_heralds_to_state, remove_heralds_from_state
import warnings; warnings.filterwarnings("ignore")
from collections import Counter
res=Counter(); ex={}
def note(k,ok,w=None):
    res[(k,bool(ok))]+=1
    if not ok: ex.setdefault(k,w)
rng=np.random.default_rng(0)
# ---- C03 rejections
c=lw.Circuit(3); c.bs(0); c.bs(1); c.herald(1,0)
sim=em.Simulator(c)
bad_inputs=[lw.State([1]),lw.State([1,0,0]),lw.State([-1,2]),lw.State([1.0,0]),lw.State([True,0]),lw.State([0.5,0.5]),[1,0],lw.State([np.int64(1),0])]
for b in bad_inputs:
    try: sim.simulate(b); note("C03 reject "+repr(b),False,"accepted")
    except Exception as e: note("C03 reject",True)
try: sim.simulate([lw.State([1,0]),lw.State([1,1])]); note("C03 mixed n",False)
except Exception: note("C03 mixed n",True)
try: sim.simulate(lw.State([1,0]),[lw.State([1,1])]); note("C03 out n mismatch",False)
except Exception: note("C03 out n mismatch",True)
try: sim.simulate(lw.State([1,0]),[lw.State([1,-0])]); note("C03 fine",True)
except Exception as e: note("C03 fine",False,repr(e))
# ---- C10 parameter histories
for t in range(300):
    r=np.random.default_rng(t)
    p=lw.Parameter(float(r.uniform(0,1)),bounds=[0,1] if r.random()<0.7 else None)
    for _ in range(20):
        k=int(r.integers(0,4)); before=(p.get(),p.min_bound,p.max_bound)
        try:
            if k==0: p.set(float(r.uniform(-0.5,1.5)))
            elif k==1: p.min_bound=float(r.uniform(-0.5,1.0)) if r.random()<0.8 else None
            elif k==2: p.max_bound=float(r.uniform(0,1.5)) if r.random()<0.8 else None
            else: p.set(r.choice(["a",None,True]))
            acc=True
        except Exception as e: acc=False
        v=p.get()
        if not acc: note("C10 rejected unchanged",before==(p.get(),p.min_bound,p.max_bound),(t,before))
        if isinstance(v,(int,float)) and not isinstance(v,bool):
            okb=(p.min_bound is None or v>=p.min_bound) and (p.max_bound is None or v<=p.max_bound)
            note("C10 in bounds",okb,(t,v,p.min_bound,p.max_bound))
        else:
            note("C10 nonnumeric with bounds",not p.has_bounds(),(t,v,p.min_bound,p.max_bound))
# live param in nested groups + get_all_params + freeze
pa=lw.Parameter(0.3); pb=lw.Parameter(1.0); pl=lw.Parameter(0.1)
s=lw.Circuit(2); s.bs(0,reflectivity=pa); s.ps(1,pb)
m=lw.Circuit(3); m.add(s,1,group=True); m.loss(0,pl); m.ps(0,pb)
top=lw.Circuit(4); top.add(m,0,group=True); top.add(s,2)
fz=top.copy(freeze_parameters=True); cp=top.copy()
U0=top.U_full.copy(); 
note("C10 all params once",sorted(map(id,top.get_all_params()))==sorted(map(id,[pa,pb,pl])),top.get_all_params())
note("C10 frozen none",fz.get_all_params()==[],fz.get_all_params())
pa.set(0.9); pb.set(2.0); pl.set(0.5)
note("C10 live",not np.allclose(top.U_full,U0) and np.allclose(cp.U_full,top.U_full))
note("C10 frozen const",np.allclose(fz.U_full,U0))
pa.set(1.5)
try: top.U; note("C10 invalid surfaces",False)
except lw.CircuitCompilationError: note("C10 invalid surfaces",True)
except Exception as e: note("C10 invalid surfaces",False,repr(e))
pa.set(0.5); pl.set(2)
try: top.U; note("C10 invalid loss surfaces",False)
except lw.CircuitCompilationError: note("C10 invalid loss surfaces",True)
pl.set("x")
try: top.U; note("C10 nonnumeric loss surfaces",False)
except lw.CircuitCompilationError: note("C10 nonnumeric loss surfaces",True)
except Exception as e: note("C10 nonnumeric loss surfaces",False,repr(e))
pl.set(0.1); pb.set("q")
try: top.U; note("C10 nonnumeric phase surfaces",False)
except lw.CircuitCompilationError: note("C10 nonnumeric phase surfaces",True)
except Exception as e: note("C10 nonnumeric phase surfaces",False,repr(e))
# ---- C17
for t in range(300):
    r=np.random.default_rng(t); nm=int(r.integers(1,5))
    def rs(k):
        out=[]
        while len(out)<k:
            s=lw.State([int(x) for x in r.integers(0,4,nm)])
            if s not in out: out.append(s)
        return out
    ni=int(r.integers(1,4)); no=int(r.integers(1,min(12,4**nm)+1))
    ins=rs(ni) if 4**nm>=ni else rs(1); outs=rs(no)
    arr=r.random((len(ins),len(outs)))
    if r.random()<0.3: arr[0,:]=0
    R=SimulationResult(arr,"probability",inputs=ins,outputs=outs)
    ok=all(R[i,o]==arr[a,b]==R[i][o]==R.array[a,b] for a,i in enumerate(ins) for b,o in enumerate(outs))
    note("C17 index",ok)
    for fn,f in (("thr",lambda s,inv:[ (1 if x>=1 else 0) if not inv else 1-(1 if x>=1 else 0) for x in s]),("par",lambda s,inv:[(x%2) if not inv else 1-(x%2) for x in s])):
        for inv in (False,True):
            M=(R.apply_threshold_mapping if fn=="thr" else R.apply_parity_mapping)(invert=inv)
            good=True
            for a,i in enumerate(ins):
                exp={}
                for b,o in enumerate(outs):
                    k=lw.State(f(o,inv)); exp[k]=exp.get(k,0)+arr[a,b]
                for k in M.outputs:
                    if abs(M[i,k]-exp.get(k,0))>1e-12: good=False
                if abs(sum(M[i].values())-arr[a].sum())>1e-9: good=False
                if set(exp)-set(M.outputs): good=False
                for b,k in enumerate(M.outputs):
                    if M.array[a,b]!=M[i,k]: good=False
            note(f"C17 {fn} inv={inv}",good,(t,))
    A=SimulationResult(arr.astype(complex),"probability_amplitude",inputs=ins,outputs=outs)
    for meth in (A.apply_threshold_mapping,A.apply_parity_mapping):
        try: meth(); note("C17 amp refused",False)
        except ValueError: note("C17 amp refused",True)
    cnt={o:int(r.integers(0,100)) for o in outs}
    S=SamplingResult(cnt,ins[0]); note("C17 sampling counts",dict(S)==cnt and all(S[o]==cnt[o] for o in outs))
    Mt=S.apply_threshold_mapping(); note("C17 sampling thr total",sum(Mt.values())==sum(cnt.values()))
# ---- C18
for t in range(500):
    r=np.random.default_rng(t)
    a=[int(x) for x in r.integers(0,4,int(r.integers(0,6)))]; b=[int(x) for x in r.integers(0,4,int(r.integers(0,6)))]; cc=[int(x) for x in r.integers(0,4,int(r.integers(0,6)))]
    A,B,C=lw.State(list(a)),lw.State(list(b)),lw.State(list(cc))
    note("C18 add",(A+B).s==a+b and ((A+B)+C)==(A+(B+C)))
    note("C18 eq/hash",(A==lw.State(list(a))) and hash(A)==hash(lw.State(list(a))) and ((A==B)==(a==b)))
    if len(a)==len(b): note("C18 merge",A.merge(B)==B.merge(A) and A.merge(B).s==[x+y for x,y in zip(a,b)])
    x=A.s; x.append(9); 
    for v in A: pass
    note("C18 immut s",A.s==a)
    if a:
        sl=slice(int(r.integers(-len(a),len(a))),int(r.integers(-len(a),len(a)+1)),int(r.choice([1,2,-1])))
        note("C18 slice",isinstance(A[sl],lw.State) and A[sl].s==a[sl])
    note("C18 counts",A.n_photons==sum(a) and A.n_modes==len(a)==len(A))
    # heralds round trip
    nh=int(r.integers(0,4)); tot=len(a)+nh
    pos=[int(p) for p in r.choice(tot,nh,replace=False)] if tot>0 else []
    h={p:int(r.integers(0,3)) for p in pos}
    full=add_heralds_to_state(A,h)
    note("C18 herald rt",remove_heralds_from_state(full,list(h.keys()))==a and all(full[p]==n for p,n in h.items()),(a,h,full))
    # annotated
    la=[[int(x) for x in r.integers(0,3,int(r.integers(0,3)))] for _ in range(int(r.integers(1,4)))]
    AA=AnnotatedState([list(l) for l in la]); AB=AnnotatedState([list(reversed(l)) for l in la])
    note("C18 ann order",AA==AB and hash(AA)==hash(AB))
    for i in range(len(la)):
        g=AA[i]; g.append(99)
    note("C18 ann immut via getitem",AA==AB,(la,))
    for l in AA.s: l.append(5)
    note("C18 ann immut via s",AA==AB)
    for l in AA: l.append(5)
    note("C18 ann immut via iter",AA==AB)
for d in [0,0.001,0.5,3,10,40]:
    note("C18 db rt",abs(lw.decimal_to_db_loss(lw.db_loss_to_decimal(d))-d)<1e-9,(d,))
for l in [0,0.1,0.5,0.999]:
    note("C18 dec rt",abs(lw.db_loss_to_decimal(lw.decimal_to_db_loss(l))-l)<1e-12,(l,))
for k,v in sorted(res.items(),key=str): print(k,v)
print({k:v for k,v in ex.items()})
