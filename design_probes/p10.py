import lightworks as lw, numpy as np, itertools
from lightworks import emulator as em, qubit, tomography as tomo
import warnings; warnings.filterwarnings("ignore")
def exp_state(circuits):
    res=[]
    for c in circuits:
        n=c.input_modes//2
        s=em.Sampler(c, lw.State([1,0]*n))
        # exact noiseless frequencies, post-selected on one photon per qubit
        p=s.probability_distribution
        hm=list(c.heralds["output"].keys())
        out={}
        for st,pr in p.items():
            if any(st[m]!=c.heralds["output"][m] for m in hm): continue
            v=[st[i] for i in range(len(st)) if i not in hm]
            if all(v[2*q]+v[2*q+1]==1 for q in range(n)):
                out[lw.State(v)]=out.get(lw.State(v),0)+pr
        res.append(out)
    return res
def exp_proc(circuits, inputs):
    res=[]
    for c,i in zip(circuits,inputs):
        n=c.input_modes//2
        s=em.Sampler(c, i)
        p=s.probability_distribution
        hm=list(c.heralds["output"].keys())
        out={}
        for st,pr in p.items():
            if any(st[m]!=c.heralds["output"][m] for m in hm): continue
            v=[st[k] for k in range(len(st)) if k not in hm]
            if all(v[2*q]+v[2*q+1]==1 for q in range(n)):
                out[lw.State(v)]=out.get(lw.State(v),0)+pr
        res.append(out)
    return res
# state tomography of a complex state
c=lw.Circuit(2); c.add(qubit.H()); c.add(qubit.T()); c.add(qubit.Ry(0.7))
st=tomo.StateTomography(1,c,exp_state); rho=st.process()
U=c.U; psi=U[:,0]
print("state tomo 1q fid", st.fidelity(np.outer(psi,psi.conj())), np.allclose(rho,np.outer(psi,psi.conj()),atol=1e-9))
# process tomo S gate
for name,g,V in [("S",qubit.S(),np.diag([1,1j])),("Ry",qubit.Ry(0.9),qubit.Ry(0.9).U),("H",qubit.H(),qubit.H().U),("T",qubit.T(),qubit.T().U)]:
    li=tomo.LIProcessTomography(1,g,exp_proc); ch=li.process()
    ref=tomo.choi_from_unitary(V)
    mle=tomo.MLEProcessTomography(1,g,exp_proc); chm=mle.process()
    print(name,"LI==ref",np.allclose(ch,ref,atol=1e-8),"LI fid",round(li.fidelity(ref),4),"MLE fid",round(mle.fidelity(ref),4),"MLE vs LI fid", round(tomo.process_fidelity(chm,ch),4))
    gf=tomo.GateFidelity(1,g,exp_proc); print("   gate fid vs V",gf.process(V))
