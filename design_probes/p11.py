import lightworks as lw, numpy as np, sys, traceback
import matplotlib; matplotlib.use("Agg")
import matplotlib.pyplot as plt
import warnings; warnings.filterwarnings("ignore")
from p4 import gen_tree
from collections import Counter
errs=Counter(); ex={}
N=150
for t in range(N):
    rng=np.random.default_rng(t)
    try: c,r,log=gen_tree(rng,2)
    except Exception as e: continue
    # add some extras: loss, barrier, param
    try:
        n=c.input_modes
        p=lw.Parameter(0.3,label="a") if rng.random()<0.5 else lw.Parameter(0.4)
        if c.n_modes-len(c._internal_modes)>=2: c.bs(0,1,reflectivity=p)
        c.loss(0,0.2); c.barrier(); c.ps(0,lw.Parameter(1.0))
    except Exception as e: errs["build:"+type(e).__name__]+=1; continue
    for dt in ["svg","mpl"]:
      for dl in [False,True]:
        for spv in [False,True]:
            try:
                lw.Display(c,display_loss=dl,display_type=dt,show_parameter_values=spv)
                plt.close("all")
            except Exception as e:
                k=(dt,type(e).__name__,str(e)[:60]); errs[k]+=1; ex.setdefault(k,(t,traceback.format_exc().splitlines()[-4:]))
print(errs)
for k,v in ex.items(): print(k,v)
