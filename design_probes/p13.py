import lightworks as lw, numpy as np, itertools, math
from lightworks import emulator as em
from lightworks.emulator.components.source import purity_to_prob
import warnings; warnings.filterwarnings("ignore")
from refmodel import *
def bs_dist(U,n_real,ins):
    """exact dist over real modes for indistinguishable photons, ins over real modes; U full incl loss"""
    N=U.shape[0]; n=sum(ins); full_in=list(ins)+[0]*(N-n_real)
    d={}
    for o in fock(N,n):
        a=amp(U,[(i,k) for i,k in enumerate(full_in) if k],[(i,k) for i,k in enumerate(o) if k])
        key=tuple(o[:n_real]); d[key]=d.get(key,0)+abs(a)**2
    return d
def conv(d1,d2):
    r={}
    for a,p in d1.items():
        for b,q in d2.items():
            k=tuple(x+y for x,y in zip(a,b)); r[k]=r.get(k,0)+p*q
    return r
def ref_source_dist(U,n_real,ins,br,pur,ind):
    nu=br; pi=ind**0.5; pd=1-pi; p1=purity_to_prob(pur); p2=1-p1
    # documented per-photon outcomes
    outs=[("none",1-nu*(p1+p2*nu+2*(1-nu)*p2)),("good",pi*nu*(p1+(1-nu)*p2)),("dist",pd*nu*(p1+(1-nu)*p2)),
          ("noise",nu*(1-nu)*p2),("good+noise",nu**2*pi*p2),("dist+noise",nu**2*pd*p2)]
    photons=[m for m,k in enumerate(ins) for _ in range(k)]
    total={}
    vac=tuple([0]*n_real)
    single={m:bs_dist(U,n_real,[1 if j==m else 0 for j in range(n_real)]) for m in set(photons)}
    cache={}
    for combo in itertools.product(outs,repeat=len(photons)):
        pr=1
        for _,p in combo: pr*=p
        if pr==0: continue
        good=[0]*n_real; singles=[]
        for m,(o,_) in zip(photons,combo):
            if o in("good","good+noise"): good[m]+=1
            if o in("dist","dist+noise"): singles.append(m)
            if o in("noise","good+noise","dist+noise"): singles.append(m)
        g=tuple(good)
        if g not in cache: cache[g]=bs_dist(U,n_real,good)
        d=cache[g]
        for m in singles: d=conv(d,single[m])
        for k,v in d.items(): total[k]=total.get(k,0)+pr*v
    return total
rng=np.random.default_rng(5)
worst=0; nbad=0
for t in range(40):
    n=int(rng.integers(2,5)); lossy=rng.random()<0.5
    c=lw.Unitary(lw.random_unitary(n,int(rng.integers(1e6))))
    if lossy:
        for _ in range(int(rng.integers(1,3))): c.loss(int(rng.integers(0,n)),float(rng.uniform(0.1,0.7)))
    ins=[0]*n
    for _ in range(int(rng.integers(1,4))): ins[int(rng.integers(0,n))]+=1
    br,pur,ind=[float(x) for x in (rng.choice([1,rng.uniform(0.3,1)]),rng.choice([1,rng.uniform(0.55,1)]),rng.choice([1,0,rng.uniform(0,1)]))]
    for b in ["permanent","slos"]:
        s=em.Sampler(c,lw.State(ins),source=em.Source(brightness=br,purity=pur,indistinguishability=ind),backend=b)
        p=s.probability_distribution
        ref=ref_source_dist(c.U_full,n,ins,br,pur,ind)
        keys=set(ref)|set(tuple(k) for k in p)
        dev=max(abs(ref.get(k,0)-p.get(lw.State(list(k)),0)) for k in keys)
        if dev>1e-6:
            nbad+=1
            if nbad<6: print("DEV",t,b,n,lossy,ins,round(br,3),round(pur,3),round(ind,3),dev, sum(p.values()))
print("done nbad",nbad)
