import lightworks as lw, numpy as np
import warnings; warnings.filterwarnings("ignore")
s=lw.Circuit(2); s.bs(0); s.herald(0,1)
p=lw.Circuit(2); p.add(s,1)   # parent: [v0, v1, anc]? 
print(p.n_modes,p.heralds,p._internal_modes, p.input_modes)
c=lw.Circuit(2); c.bs(0)
try:
    p.add(c,1)
    print("accepted oversize add; n_modes",p.n_modes,p.heralds, c.n_modes)
    print(np.round(p.U_full,2))
except Exception as e: print("raised",repr(e), "cause", repr(e.__cause__))
print(p.n_modes,p.heralds,p._internal_modes)
for sp in p._get_circuit_spec(): print(sp)
