import lightworks as lw, numpy as np, itertools
from lightworks import qubit, tomography as tomo
import warnings; warnings.filterwarnings("ignore")
from refmodel import *
from p29 import exact_outcomes
c=lw.Circuit(6); th=np.arccos(1/3)
c.add(qubit.Ry(0.9),1); c.add(qubit.Rx(0.4),3)
for m,t,p in [(3,np.pi/2,0),(0,th,0),(2,th,np.pi),(4,th,0),(3,np.pi/2,0)]:
    c.bs(m); c.ps(m+1,t); c.bs(m); c.ps(m+1,p)
c.add(qubit.S(),1)
c.herald(0,0); c.herald(0,5)
def exp(circs): return [exact_outcomes(x,[1,0,1,0]) for x in circs]
st=tomo.StateTomography(2,c,exp)
rho=st.process()
psi=[]
for bits in itertools.product([0,1],repeat=2):
    o=[]
    for b in bits: o+=[1,0] if b==0 else [0,1]
    psi.append(impl_amplitude(c,[1,0,1,0],o))
psi=np.array(psi)/np.linalg.norm(psi)
print("top-level heralds fid",st.fidelity(np.outer(psi,psi.conj())), "trace",np.trace(rho).real, "herm",np.allclose(rho,rho.conj().T))
# the same circuit wrapped (ancillas internal)
w=lw.Circuit(4); w.add(c)
st=tomo.StateTomography(2,w,exp); rho=st.process(); print("wrapped fid",st.fidelity(np.outer(psi,psi.conj())))
