import lightworks as lw, numpy as np
from lightworks import emulator as em, qubit, tomography as tomo
import warnings; warnings.filterwarnings("ignore")
from p10 import exp_proc
from scipy.stats import unitary_group
rng=np.random.default_rng(3)
for t in range(6):
    th=rng.uniform(0,6,3)
    g=lw.Circuit(2); g.add(qubit.Rz(th[0])); g.add(qubit.Ry(th[1])); g.add(qubit.Rz(th[2]))
    V=g.U
    Ut=unitary_group.rvs(2,random_state=int(rng.integers(1e6)))
    gf=tomo.GateFidelity(1,g,exp_proc).process(Ut)
    d=2; exp=(abs(np.trace(Ut.conj().T@V))**2+d)/(d*(d+1))
    exp2=(abs(np.trace(Ut.conj().T@V.T))**2+d)/(d*(d+1))
    print(round(gf,6),round(exp,6),round(exp2,6), "self:",round(tomo.GateFidelity(1,g,exp_proc).process(V),6))
# two qubit
g=lw.Circuit(4); g.add(qubit.Ry(0.4),0); g.add(qubit.S(),2); g.add(qubit.CNOT(),0); g.add(qubit.T(),0)
def V2(c):
    import itertools
    from refmodel import impl_amplitude
    B=[[1,0,1,0],[1,0,0,1],[0,1,1,0],[0,1,0,1]]
    M=np.array([[impl_amplitude(c,i,o) for i in B] for o in B]); return M/np.sqrt((abs(M)**2).sum()/4)
V=V2(g)
print("2q self gate fid",tomo.GateFidelity(2,g,exp_proc).process(V))
li=tomo.LIProcessTomography(2,g,exp_proc); li.process(); print("2q LI fid vs ref",li.fidelity(tomo.choi_from_unitary(V)), "vs ref(V.T)",li.fidelity(tomo.choi_from_unitary(V.T)))
