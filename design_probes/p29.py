import lightworks as lw, numpy as np, itertools, time, os
from lightworks import emulator as em, qubit, tomography as tomo
import warnings; warnings.filterwarnings("ignore")
from refmodel import *
from collections import Counter
def exact_outcomes(c,inp):
    """exact dual-rail outcome frequencies conditioned on heralds and one photon per qubit (own permanent)"""
    n=c.input_modes//2; k=c.input_modes
    out={}
    for bits in itertools.product([0,1],repeat=n):
        o=[]
        for b in bits: o+=[1,0] if b==0 else [0,1]
        a=impl_amplitude(c,list(inp),o)
        out[lw.State(o)]=abs(a)**2
    tot=sum(out.values())
    return {s:p/tot for s,p in out.items()}
seen=[]
def exp_state(circuits):
    seen.append(len(circuits))
    return [exact_outcomes(c,[1,0]*(c.input_modes//2)) for c in circuits]
rng=np.random.default_rng(0); res=Counter()
def rand1q(rng):
    c=lw.Circuit(2); th=rng.uniform(0,6,3); c.add(qubit.Rz(th[0])); c.add(qubit.Ry(th[1])); c.add(qubit.Rz(th[2])); return c
t0=time.time()
for t in range(8):
    n=[1,2,2,3,2,3,2,2][t]
    base=lw.Circuit(2*n)
    for q in range(n): base.add(rand1q(rng),2*q)
    if n>=2:
        g=[qubit.CNOT(),qubit.CZ(),qubit.CNOT_Heralded(),qubit.CNOT(0)][t%4]; base.add(g,2*int(rng.integers(0,n-1)))
        for q in range(n): base.add(rand1q(rng),2*q)
    if n==3 and t%2: base.add(qubit.CZ(),2)
    U0=base.U_full.copy(); nm0=base.n_modes
    st=tomo.StateTomography(n,base,exp_state); rho=st.process()
    # reference state
    psi=[]
    for bits in itertools.product([0,1],repeat=n):
        o=[]
        for b in bits: o+=[1,0] if b==0 else [0,1]
        psi.append(impl_amplitude(base,[1,0]*n,o))
    psi=np.array(psi); psi/=np.linalg.norm(psi); ref=np.outer(psi,psi.conj())
    ok=np.allclose(rho,ref,atol=1e-8); herm=np.allclose(rho,rho.conj().T); tr=abs(np.trace(rho)-1)<1e-9
    fid=st.fidelity(ref)
    res[("rho ok",ok,herm,tr,abs(fid-1)<1e-6)]+=1
    res[("n circuits == 3^n",seen[-1]==3**n)]+=1
    res[("base unchanged",np.allclose(base.U_full,U0) and base.n_modes==nm0)]+=1
print(os.environ.get("PYTHONHASHSEED"),dict(res),"%.1fs"%(time.time()-t0))
