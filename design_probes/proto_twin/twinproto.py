"""Throw-away prototype: fresh-twin (C11) and argument-immutability (C08) monitors under the repo tests."""
import functools, random, numpy as np, os, threading
import lightworks as lw
from lightworks import emulator as em
from lightworks.emulator.simulation.sampler import Sampler
from lightworks.emulator.simulation.quick_sampler import QuickSampler
from lightworks.emulator.simulation.analyzer import Analyzer
from lightworks.emulator.simulation.simulator import Simulator
from lightworks.sdk.circuit.circuit import Circuit
from lightworks.sdk.state import State
STATS={"twin_checks":0,"twin_viol":[],"immut_checks":0,"immut_viol":[],"twin_skipped":0}
_tl=threading.local()
def busy(): return getattr(_tl,"b",False)
def eqd(a,b): return set(a)==set(b) and all(abs(a[k]-b[k])<=1e-12 for k in a)
def twin_of(o):
    if isinstance(o,Sampler):
        s=o.source
        return Sampler(o.circuit,o.input_state,source=em.Source(purity=s.purity,brightness=s.brightness,indistinguishability=s.indistinguishability,probability_threshold=s.probability_threshold),
                       detector=em.Detector(efficiency=o.detector.efficiency,p_dark=o.detector.p_dark,photon_counting=o.detector.photon_counting),backend=o.backend.backend)
    return QuickSampler(o.circuit,o.input_state,photon_counting=o.photon_counting,post_select=o.post_select)
def fp_circ(c):
    try: u=c.U_full.tobytes()
    except Exception: u=None
    return (c.n_modes,c.input_modes,repr(c.heralds),repr(c._internal_modes),u,len(c._get_circuit_spec()))
def fp(x):
    if isinstance(x,Circuit): return ("C",fp_circ(x))
    if isinstance(x,State): return ("S",tuple(x.s))
    if isinstance(x,(list,tuple)): return ("L",tuple(fp(i) for i in x))
    if isinstance(x,dict): return ("D",tuple((fp(k),fp(v)) for k,v in x.items()))
    return None
def install():
    for cls in (Sampler,QuickSampler):
        prop=cls.__dict__["probability_distribution"]
        def mk(prop,cls):
            def getter(self):
                res=prop.fget(self)
                if busy(): return res
                _tl.b=True
                try:
                    st=random.getstate()
                    try:
                        tw=twin_of(self); ref=tw.probability_distribution
                        STATS["twin_checks"]+=1
                        if not eqd(res,ref): STATS["twin_viol"].append((cls.__name__,"pdist",os.environ.get("PYTEST_CURRENT_TEST")))
                    except Exception as e:
                        STATS["twin_viol"].append((cls.__name__,"twin raised "+repr(e)[:60],os.environ.get("PYTEST_CURRENT_TEST")))
                    finally: random.setstate(st)
                finally: _tl.b=False
                return res
            return property(getter)
        setattr(cls,"probability_distribution",mk(prop,cls))
        for name in ("sample_N_inputs","sample_N_outputs"):
            if not hasattr(cls,name): continue
            orig=getattr(cls,name)
            def mk2(orig,name,cls):
                @functools.wraps(orig)
                def w(self,N,*a,**k):
                    if busy(): return orig(self,N,*a,**k)
                    seed=k.get("seed", a[-1] if (name!="sample_N_outputs" or cls is Sampler) and len(a)>=3 else (a[0] if cls is QuickSampler and a else None))
                    st=random.getstate()
                    res=orig(self,N,*a,**k)
                    if seed is None: STATS["twin_skipped"]+=1; return res
                    st2=random.getstate()
                    _tl.b=True
                    try:
                        tw=twin_of(self); ref=orig(tw,N,*a,**k); STATS["twin_checks"]+=1
                        if dict(res)!=dict(ref): STATS["twin_viol"].append((cls.__name__,name,os.environ.get("PYTEST_CURRENT_TEST")))
                    except Exception as e: STATS["twin_viol"].append((cls.__name__,name+" twin raised "+repr(e)[:60],os.environ.get("PYTEST_CURRENT_TEST")))
                    finally: _tl.b=False; random.setstate(st2)
                    return res
                return w
            setattr(cls,name,mk2(orig,name,cls))
    # immutability on a few entry points
    targets=[(Circuit,"add"),(Circuit,"__add__"),(Circuit,"copy"),(Simulator,"simulate"),(Analyzer,"analyze"),(Sampler,"__init__"),(QuickSampler,"__init__"),(Analyzer,"__init__"),(Simulator,"__init__")]
    for cls,name in targets:
        orig=getattr(cls,name)
        def mk3(orig,name,cls):
            @functools.wraps(orig)
            def w(self,*a,**k):
                if getattr(_tl,"imm",0): return orig(self,*a,**k)
                _tl.imm=1
                try:
                    before=[fp(x) for x in list(a)+list(k.values())]
                    try: return orig(self,*a,**k)
                    finally:
                        after=[fp(x) for x in list(a)+list(k.values())]
                        STATS["immut_checks"]+=1
                        if before!=after: STATS["immut_viol"].append((cls.__name__,name,os.environ.get("PYTEST_CURRENT_TEST")))
                finally: _tl.imm=0
            return w
        setattr(cls,name,mk3(orig,name,cls))
