import sys
sys.path.insert(0,"/tmp/proto")
import twinproto as tp
tp.install()
def pytest_sessionfinish(session):
    s=tp.STATS
    print("\nTWIN STATS",{k:(v if not isinstance(v,list) else len(v)) for k,v in s.items()})
    for k in ("twin_viol","immut_viol"):
        seen=set()
        for v in s[k]:
            if v[:2] in seen: continue
            seen.add(v[:2]); print("  ",k,v)
