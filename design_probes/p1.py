import lightworks as lw, numpy as np
from lightworks import emulator as em
import warnings; warnings.filterwarnings("ignore")
rng=np.random.default_rng(0)
# F1: normalisation of lossy circuits, both backends
bad={"permanent":0,"slos":0}; tot=0
ex=None
for t in range(60):
    n=int(rng.integers(2,5))
    c=lw.Circuit(n)
    for k in range(6):
        m=int(rng.integers(0,n-1))
        c.bs(m, reflectivity=float(rng.random()))
        c.ps(int(rng.integers(0,n)), float(rng.random()*6))
        if rng.random()<0.5: c.loss(int(rng.integers(0,n)), float(rng.random()*0.8))
    s=[int(rng.integers(0,2)) for _ in range(n)]
    if sum(s)==0: s[0]=1
    tot+=1
    for b in bad:
        sm=em.Sampler(c, lw.State(s), backend=b)
        p=sm.probability_distribution
        tp=sum(p.values())
        if abs(tp-1)>1e-6:
            bad[b]+=1
            if ex is None: ex=(b,tp)
print("F1 norm fails",bad,"of",tot,ex)
