"""C02 wide generator on (fixed) tree: loss, unitary leaves, library gates, '+', nested, group flags."""
import lightworks as lw, numpy as np, sys, traceback, math
from lightworks import qubit
import warnings; warnings.filterwarnings("ignore")
sys.path.insert(0,"/verif/design_probes/proto_shadow")
import shadowproto as sp; sp.install()
from collections import Counter
def leaf(rng,maxn=5):
    r=rng.random()
    if r<0.12:
        g=[qubit.CZ,qubit.CNOT,qubit.CZ_Heralded,qubit.H,lambda:qubit.Rx(0.7),lambda:qubit.SWAP((0,1),(2,3))][int(rng.integers(0,6))]()
        return g,[type(g).__name__]
    n=int(rng.integers(1,maxn+1)); log=[f"C({n})"]
    if rng.random()<0.25:
        c=lw.Unitary(lw.random_unitary(n,int(rng.integers(1e6)))); log=[f"U({n})"]
    else: c=lw.Circuit(n)
    for _ in range(int(rng.integers(0,4))):
        k=int(rng.integers(0,5))
        if k==0 and n>=2:
            p,q=map(int,rng.choice(n,2,replace=False)); c.bs(p,q,float(rng.uniform(0.1,0.9)),convention=str(rng.choice(["Rx","H"]))); log.append(f"bs({p},{q})")
        elif k==1: p=int(rng.integers(0,n)); c.ps(p,float(rng.uniform(0,6))); log.append(f"ps({p})")
        elif k==2 and n>=2:
            pm=list(map(int,rng.permutation(n))); c.mode_swaps({i:pm[i] for i in range(n)}); log.append(f"sw({pm})")
        elif k==3: p=int(rng.integers(0,n)); c.loss(p,float(rng.uniform(0.1,0.6))); log.append(f"loss({p})")
        elif k==4: c.barrier(); log.append("bar")
    if n>=2 and rng.random()<0.6:
        nh=int(rng.integers(1,min(n-1,3)+1))
        ins=list(map(int,rng.choice(n,nh,replace=False))); outs=list(map(int,rng.choice(n,nh,replace=False))) if rng.random()<0.5 else ins
        for i,o in zip(ins,outs):
            ph=int(rng.integers(0,2)); c.herald(ph,i,o); log.append(f"h({ph},{i},{o})")
    return c,log
def tree(rng,depth):
    if depth==0 or rng.random()<0.2: return leaf(rng)
    n=int(rng.integers(2,6)); c=lw.Circuit(n); log=[f"P({n})"]
    for _ in range(int(rng.integers(1,5))):
        r=rng.random()
        nv=n
        if r<0.2:
            p,q=map(int,rng.choice(n,2,replace=False)); c.bs(p,q,float(rng.uniform(0.1,0.9))); log.append(f"bs({p},{q})"); continue
        if r<0.3:
            p=int(rng.integers(0,n)); c.loss(p,0.3); log.append(f"loss({p})"); continue
        sc,sl=tree(rng,depth-1); k=sc.input_modes
        if k>n or k==0: continue
        m=int(rng.integers(0,n-k+1)); g=bool(rng.random()<0.5)
        c.add(sc,m,group=g); log.append(("add",m,g,sl))
        if rng.random()<0.15: sc.ps(0,1.234)   # later edit of child must not affect parent
    if rng.random()<0.3 and not c.heralds["input"]:
        o=lw.Circuit(n); o.ps(0,0.5); c=c+o; log.append("+")
    if rng.random()<0.3:
        free=[m for m in range(c.n_modes-len(c._internal_modes))]
        # top-level herald on a numbered mode not already heralded (in user numbering)
        try:
            i=int(rng.choice(free)); c.herald(int(rng.integers(0,2)),i); log.append(f"H({i})")
        except ValueError: pass
    return c,log
seed=int(sys.argv[1]); N=int(sys.argv[2])
res=Counter(); first={}
for t in range(N):
    rng=np.random.default_rng(seed*10**6+t)
    sp.STATS["violations"].clear()
    try: c,log=tree(rng,int(rng.integers(1,4)))
    except Exception as e:
        res["build "+type(e).__name__+" "+str(e)[:40]]+=1; first.setdefault("build "+type(e).__name__+" "+str(e)[:40],(t,traceback.format_exc().splitlines()[-3:])); continue
    try: sp.compare(c,"end")
    except Exception as e: res["cmp "+type(e).__name__]+=1; first.setdefault("cmp",(t,repr(e),log)); continue
    if sp.shadow_of(c) is None or sp.shadow_of(c).tainted: res["tainted"]+=1; continue
    if sp.STATS["violations"]: res["VIOL"]+=1; first.setdefault("VIOL "+sp.STATS["violations"][0][1][:12],(t,sp.STATS["violations"][0][1],log))
    else: res["ok"]+=1
print(res); 
for k,v in first.items(): print(k,str(v)[:700])
print(sp.STATS.get("model_errors",[])[:3])
