import sys; sys.path.insert(0,"/verif/.deps")
import icontract, lightworks as lw
from lightworks.sdk.circuit import parameters as P
class InvBroken(Exception): pass
def within_bounds(self):
    v=self.get(); lo=self.min_bound; hi=self.max_bound
    if lo is not None and v<lo: return False
    if hi is not None and v>hi: return False
    return True
Orig=P.Parameter
Wrapped=icontract.invariant(within_bounds,error=InvBroken)(Orig)
print(Wrapped is Orig)
p=lw.Parameter(1,bounds=[0,2])
p.set(1.5)
try: p.set(5)
except Exception as e: print("rejected",type(e).__name__)
p.min_bound=1.2
try: p.min_bound=1.9
except Exception as e: print("rejected",type(e).__name__)
# break it
p._Parameter__value=10
try: p.get(); print("no fire on get")
except InvBroken as e: print("fired on get")
try: p.has_bounds(); print("no fire")
except InvBroken: print("fired on has_bounds")
