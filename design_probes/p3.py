import lightworks as lw, numpy as np
import warnings; warnings.filterwarnings("ignore")
# F3: argument mutation
sub=lw.Circuit(2); sub.herald(0,1)   # 1 visible mode
par=lw.Circuit(3)
par.add(sub,1)  # ancilla inserted: full modes: 0, [1 vis], 2(anc)?, ...
print("par n_modes",par.n_modes,"heralds",par.heralds,"internal",par._internal_modes)
g=lw.Circuit(3); g.bs(0); g.bs(1)
before=(g.n_modes,)
par.add(g,0)   # spans user modes 0..2 -> contains internal mode
print("g.n_modes before/after",before,g.n_modes, "par",par.n_modes)
# and via H shared
from lightworks import qubit
h=qubit.H(); 
base=lw.Circuit(3); base.herald(0,1)
p2=lw.Circuit(2); p2.add(base,0)
print(p2.n_modes,p2.heralds,p2._internal_modes)
p2.add(h,0)
print("H n_modes after add:",h.n_modes, h.U.shape)
