import lightworks as lw, numpy as np, itertools, math, sys
from lightworks import emulator as em
import warnings; warnings.filterwarnings("ignore")
from refmodel import *
from collections import Counter
res=Counter(); ex={}
for t in range(int(sys.argv[1]) if len(sys.argv)>1 else 200):
    rng=np.random.default_rng(t)
    n=int(rng.integers(2,6)); c=lw.Circuit(n)
    for _ in range(int(rng.integers(2,9))):
        k=int(rng.integers(0,4))
        if k==0 and n>=2: p,q=map(int,rng.choice(n,2,replace=False)); c.bs(p,q,float(rng.choice([0,1,rng.random()])))
        elif k==1: c.ps(int(rng.integers(0,n)),float(rng.uniform(0,6)))
        elif k==2: c.loss(int(rng.integers(0,n)),float(rng.choice([0,1,rng.uniform(0,0.9)])))
        else:
            m=int(rng.integers(1,n+1)); c.add(lw.Unitary(lw.random_unitary(m,int(rng.integers(1e6)))),int(rng.integers(0,n-m+1)))
    nh=int(rng.integers(0,min(2,n-1)+1))
    hin=list(map(int,rng.choice(n,nh,replace=False))); hout=list(map(int,rng.choice(n,nh,replace=False))) if rng.random()<0.5 else hin
    for i,o in zip(hin,hout): c.herald(int(rng.integers(0,3)),i,o)
    k=c.input_modes; s=[0]*k
    for _ in range(int(rng.integers(0,4))): s[int(rng.integers(0,k))]+=1
    if sum(s)+sum(c.heralds["input"].values())>5: continue
    U=c.U_full; N=U.shape[0]; nreal=c.n_modes
    full_in=[0]*N
    iv=[m for m in range(nreal) if m not in c.heralds["input"]]
    for g,x in zip(iv,s): full_in[g]=x
    for m,x in c.heralds["input"].items(): full_in[m]=x
    ntot=sum(full_in)
    ref={}
    for o in fock(N,ntot):
        a=amp(U,[(i,x) for i,x in enumerate(full_in) if x],[(i,x) for i,x in enumerate(o) if x])
        key=tuple(o[:nreal]); ref[key]=ref.get(key,0)+abs(a)**2
    nl=N-nreal
    d={}
    for b in ("permanent","slos"):
        try: pd=em.Sampler(c,lw.State(s),backend=b).probability_distribution
        except Exception as e: res[(b,"EXC",type(e).__name__)]+=1; ex.setdefault((b,"EXC"),(t,repr(e)[:100])); continue
        d[b]=pd
        tot=sum(pd.values()); K=len(list(fock(N,ntot))) if N<9 else 10**4
        okn=all(v>=0 for v in pd.values()) and (1-1e-9*K-1e-9<=tot<=1+1e-9)
        okp=all(sum(st)<=ntot for st in pd)
        cfg=math.comb(nl+ntot,ntot) if nl else 1
        oke=all(ref.get(tuple(st),0)-1e-9*cfg-1e-9<=v<=ref.get(tuple(st),0)+1e-9 for st,v in pd.items()) and all(v<=1e-9*cfg+2e-9 for kk,v in ref.items() if lw.State(list(kk)) not in pd)
        res[(b,bool(okn),okp,bool(oke))]+=1
        if not(okn and okp and oke): ex.setdefault((b,"bad"),(t,tot,s,c.heralds,nl))
    if len(d)==2:
        ks=set(d["permanent"])|set(d["slos"]); dev=max(abs(d["permanent"].get(k_,0)-d["slos"].get(k_,0)) for k_ in ks)
        res[("backends agree",bool(dev<=2e-9*max(1,math.comb(nl+ntot,ntot))))]+=1
        if dev>2e-9*max(1,math.comb(nl+ntot,ntot)): ex.setdefault("agree",(t,dev))
for k,v in sorted(res.items(),key=str): print(k,v)
print(ex)
