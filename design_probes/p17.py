import lightworks as lw, numpy as np, itertools, time
from lightworks import qubit
import warnings; warnings.filterwarnings("ignore")
from refmodel import *
def gate_matrix(circ,n):
    k=circ.input_modes
    basis=[]
    for bits in itertools.product([0,1],repeat=n):
        s=[]
        for b in bits: s+= [1,0] if b==0 else [0,1]
        basis.append(s)
    M=np.zeros((2**n,2**n),dtype=complex); leak=0
    for j,si in enumerate(basis):
        for o in fock(k,n):
            a=impl_amplitude(circ,si,o)
            if o in basis: M[basis.index(o),j]=a
            else: leak=max(leak,abs(a))
    return M,leak
CZm=np.diag([1,1,1,-1]); 
def cnot(t):  # big-endian: qubit0 most significant (first rail pair)
    M=np.zeros((4,4))
    for a in (0,1):
        for b in (0,1):
            if t==1: na,nb=a,b^a
            else: na,nb=a^b,b
            M[na*2+nb,a*2+b]=1
    return M
def chk(name,c,n,G):
    t=time.time(); M,leak=gate_matrix(c,n)
    j=np.argmax(abs(G)); s=M.flat[j]/G.flat[j]
    print(name,"ok" if np.allclose(M,s*G,atol=1e-9) else "MISMATCH","|c|^2=%.6f"%abs(s)**2,"leak(not nec. accepted)=%.3f"%leak,"%.2fs"%(time.time()-t))
chk("CZ",qubit.CZ(),2,CZm); chk("CZ_H",qubit.CZ_Heralded(),2,CZm)
for t in (0,1):
    chk(f"CNOT({t})",qubit.CNOT(t),2,cnot(t)); chk(f"CNOT_H({t})",qubit.CNOT_Heralded(t),2,cnot(t))
CCZm=np.diag([1]*7+[-1])
chk("CCZ",qubit.CCZ(),3,CCZm)
for t in (0,1,2):
    M=np.zeros((8,8))
    for bits in itertools.product([0,1],repeat=3):
        b=list(bits); ctr=[i for i in range(3) if i!=t]
        nb=list(b)
        if all(b[i] for i in ctr): nb[t]^=1
        M[nb[0]*4+nb[1]*2+nb[2],b[0]*4+b[1]*2+b[2]]=1
    chk(f"CCNOT({t})",qubit.CCNOT(t),3,M)
