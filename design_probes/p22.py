import lightworks as lw, numpy as np, sys, math
import warnings; warnings.filterwarnings("ignore")
from refmodel import Ref
from collections import Counter
res=Counter(); ex={}
for t in range(600):
    rng=np.random.default_rng(t)
    n=int(rng.integers(1,7)); c=lw.Circuit(n); r=Ref(n); log=[]
    nloss=0
    for _ in range(int(rng.integers(1,15))):
        k=int(rng.integers(0,6))
        if k==0 and n>=2:
            p,q=map(int,rng.choice(n,2,replace=False)); rf=float(rng.choice([0,1,1e-12,1-1e-12,rng.random()])); cv=str(rng.choice(["Rx","H"]))
            c.bs(p,q,rf,convention=cv); r.bs(p,q,rf,cv); log.append(("bs",p,q,rf,cv))
        elif k==1:
            p=int(rng.integers(0,n)); phi=float(rng.uniform(-13,13)); c.ps(p,phi); r.ps(p,phi); log.append(("ps",p))
        elif k==2:
            p=int(rng.integers(0,n)); l=float(rng.choice([0,1,rng.random()])); c.loss(p,l); r.loss_(p,l); nloss+=1; log.append(("loss",p,l))
        elif k==3:
            c.barrier(list(map(int,rng.choice(n,int(rng.integers(1,n+1)),replace=False)))); log.append(("barrier",))
        elif k==4:
            sub=list(map(int,rng.choice(n,int(rng.integers(0,n+1)),replace=False))); pm=list(map(int,rng.permutation(sub))); d=dict(zip(sub,pm))
            c.mode_swaps(d); 
            if d: r.swaps(d)
            log.append(("swaps",d))
        else:
            m=int(rng.integers(1,n+1)); U=lw.random_unitary(m,int(rng.integers(1e6))); p=int(rng.integers(0,n-m+1))
            c.add(lw.Unitary(U),p,group=bool(rng.random()<0.5)); r.unitary(p,U); log.append(("U",p,m))
    UF=c.U_full; T=r.T
    ok_shape=UF.shape==(n+nloss,n+nloss)
    # compare real block and loss rows x real cols
    okU=np.allclose(c.U,T[:n,:n],atol=1e-9)
    ok_rows=np.allclose(UF[:, :n],T[:, :n],atol=1e-9)   # all rows, real input columns
    unit=np.allclose(UF.conj().T@UF,np.eye(n+nloss),atol=1e-9)
    lead=np.allclose(UF[:n,:n],c.U)
    res[(ok_shape,bool(okU),bool(ok_rows),bool(unit) or nloss==0, lead)]+=1
    if not (ok_shape and okU and ok_rows): ex.setdefault("bad",(t,log))
    if nloss and not unit: res["nonunitary_lossy"]+=1
print(res); print(ex)
