import lightworks as lw, numpy as np, sys, random
from lightworks import emulator as em
import warnings; warnings.filterwarnings("ignore")
from collections import Counter
res=Counter(); ex={}
def mk_circ(rng,n,par):
    c=lw.Circuit(n)
    for i in range(n-1): c.bs(i,reflectivity=float(rng.uniform(0.2,0.8)))
    c.ps(0,par)
    if rng.random()<0.4: c.loss(int(rng.integers(0,n)),float(rng.uniform(0.1,0.5)))
    if rng.random()<0.5:
        c.herald(int(rng.integers(0,2)),int(rng.integers(0,n)))
    return c
def rand_in(rng,k):
    s=[0]*k
    for _ in range(int(rng.integers(1,3))): s[int(rng.integers(0,k))]+=1
    return lw.State(s)
def eqd(a,b,tol=1e-12):
    return set(a)==set(b) and all(abs(a[k]-b[k])<=tol for k in a)
for t in range(150):
    rng=np.random.default_rng(t); par=lw.Parameter(0.3)
    n=int(rng.integers(3,5)); c=mk_circ(rng,n,par)
    inp=rand_in(rng,c.input_modes)
    kind=["S","Q"][t%2]
    src=em.Source(); 
    if kind=="S": obj=em.Sampler(c,inp,source=src)
    else: obj=em.QuickSampler(c,inp)
    steps=[]
    for step in range(12):
        k=int(rng.integers(0,8)); steps.append(k)
        try:
            if k==0: par.set(float(rng.uniform(0,6)))
            elif k==1:
                c=mk_circ(rng,n,par); 
                if c.input_modes!=len(obj.input_state): obj.circuit=c; obj.input_state=rand_in(rng,c.input_modes)
                else: obj.circuit=c
            elif k==2: obj.input_state=rand_in(rng,obj.circuit.input_modes)
            elif k==3 and kind=="S": src.brightness=float(rng.uniform(0.5,1)); 
            elif k==4 and kind=="S": obj.backend=str(rng.choice(["permanent","slos"]))
            elif k==5 and kind=="Q": obj.photon_counting=bool(rng.random()<0.5)
            elif k==6 and kind=="Q": m=int(rng.integers(0,obj.circuit.input_modes)); obj.post_select=(lambda mm: (lambda s: s[mm]<=1))(m)
            elif k==7: obj.circuit.ps(0,0.4)
        except Exception as e:
            res[("step exc",type(e).__name__)]+=1; continue
        # observe
        try:
            if kind=="S":
                tw=em.Sampler(obj.circuit,obj.input_state,source=em.Source(brightness=src.brightness),backend=obj.backend.backend)
                a=obj.probability_distribution; b=tw.probability_distribution
                ok=eqd(a,b)
                r1=obj.sample_N_outputs(50,seed=3); r2=tw.sample_N_outputs(50,seed=3); ok2=dict(r1)==dict(r2)
            else:
                tw=em.QuickSampler(obj.circuit,obj.input_state,photon_counting=obj.photon_counting,post_select=obj.post_select)
                if rng.random()<0.5:
                    st=random.getstate(); x=obj.sample(); random.setstate(st); y=tw.sample(); ok2=(x==y)
                else: ok2=True
                a=obj.probability_distribution; b=tw.probability_distribution; ok=eqd(a,b)
            res[(kind,"dist",ok)]+=1; res[(kind,"sample",ok2)]+=1
            if not(ok and ok2): ex.setdefault((kind,ok,ok2),(t,steps))
        except Exception as e:
            try:
                tw.probability_distribution; res[(kind,"obj raised, twin ok",type(e).__name__)]+=1; ex.setdefault((kind,"exc"),(t,steps,repr(e)[:80]))
            except Exception as e2: res[(kind,"both raise")]+=1
for k,v in sorted(res.items(),key=str): print(k,v)
print(ex)
