import lightworks as lw, numpy as np
from lightworks import emulator as em, qubit, tomography as tomo
import warnings; warnings.filterwarnings("ignore")
from p10 import exp_proc
import time
rng=np.random.default_rng(1)
for t in range(5):
    th=rng.uniform(0,6,3)
    g=lw.Circuit(2); g.add(qubit.Rz(th[0])); g.add(qubit.Ry(th[1])); g.add(qubit.Rz(th[2]))
    V=g.U
    mle=tomo.MLEProcessTomography(1,g,exp_proc); ch=mle.process()
    li=tomo.LIProcessTomography(1,g,exp_proc); cl=li.process()
    ev=np.linalg.eigvalsh((ch+ch.conj().T)/2).min()
    pt=np.einsum(ch.reshape(2,2,2,2),[0,1,2,1])
    print("MLE vs LI fid %.5f"%tomo.process_fidelity(ch,cl),"min eig %.2e"%ev,"TP err %.2e"%abs(pt-np.eye(2)).max())
t0=time.time()
g=lw.Circuit(4); g.add(qubit.Ry(0.4),0); g.add(qubit.S(),2); g.add(qubit.CNOT(),0); g.add(qubit.T(),0)
mle=tomo.MLEProcessTomography(2,g,exp_proc); ch=mle.process()
li=tomo.LIProcessTomography(2,g,exp_proc); cl=li.process()
print("2q MLE vs LI fid %.5f"%tomo.process_fidelity(ch,cl),"%.1fs"%(time.time()-t0))
