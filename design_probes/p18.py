import lightworks as lw, numpy as np, itertools, time, sys
from lightworks import qubit
import warnings; warnings.filterwarnings("ignore")
from refmodel import *
from p9 import conv_check
from qiskit import QuantumCircuit
from collections import Counter
rng=np.random.default_rng(int(sys.argv[1]) if len(sys.argv)>1 else 0)
G1=["h","x","y","z","s","sdg","t","tdg","sx"]; GR=["rx","ry","rz","p"]; G2=["cx","cz","swap"]; G3=["ccx","ccz"]
res=Counter(); bad=[]
t0=time.time()
for t in range(120):
    n=int(rng.integers(1,4)); qc=QuantumCircuit(n); seq=[]
    for _ in range(int(rng.integers(1,7))):
        r=rng.random()
        if r<0.35 or n==1:
            g=str(rng.choice(G1)); q=int(rng.integers(0,n)); getattr(qc,g)(q); seq.append((g,q))
        elif r<0.5:
            g=str(rng.choice(GR)); q=int(rng.integers(0,n)); th=float(rng.uniform(-7,7)); getattr(qc,g)(th,q); seq.append((g,q))
        elif r<0.85 or n<3:
            g=str(rng.choice(G2)); a,b=map(int,rng.choice(n,2,replace=False)); getattr(qc,g)(a,b); seq.append((g,a,b))
        else:
            g=str(rng.choice(G3)); a,b,c=map(int,rng.permutation(3)); getattr(qc,g)(a,b,c); seq.append((g,a,b,c))
    for aps in (False,True):
        nh=sum(1 for s in seq if s[0] in("cx","cz"))
        if not aps and nh>2: res[(aps,"skip_size")]+=1; continue
        try:
            ok,leak,c2=conv_check(qc,aps)
            res[(aps,"ok" if ok else "WRONG")]+=1
            if not ok: bad.append((aps,seq,leak,c2))
        except ValueError as e: res[(aps,"refused")]+=1
        except Exception as e: res[(aps,"EXC "+type(e).__name__)]+=1; bad.append((aps,seq,repr(e)[:100]))
print(res, "%.1fs"%(time.time()-t0))
for b in bad[:10]: print(b)
