import lightworks as lw, numpy as np, itertools
from lightworks import emulator as em, qubit, tomography as tomo
import warnings; warnings.filterwarnings("ignore")
from refmodel import *
from qiskit import QuantumCircuit
from qiskit.quantum_info import Operator
def conv_check(qc, aps):
    circ, ps = qubit.qiskit_converter(qc, allow_post_selection=aps)
    n=qc.num_qubits
    Uq=Operator(qc).data  # little-endian: qubit0 least significant
    k=circ.input_modes
    basis=[]
    for bits in itertools.product([0,1],repeat=n):  # bits[q] for qubit q
        s=[]
        for b in bits: s+= [1,0] if b==0 else [0,1]
        basis.append((bits,s))
    def idx(bits): return sum(b<<q for q,b in enumerate(bits))
    ratios=[]; bad=0
    M=np.zeros((2**n,2**n),dtype=complex)
    for bi,si in basis:
        for o in fock(k,n):
            if ps is not None and not ps.validate(lw.State(o)): continue
            a=impl_amplitude(circ,si,o)
            isq=[bo for bo,so in basis if so==o]
            if not isq:
                if abs(a)>1e-9: bad+=1
            else:
                M[idx(isq[0]),idx(bi)]=a
    # M should be c*Uq
    j=np.argmax(abs(Uq)); c=M.flat[j]/Uq.flat[j]
    ok = bad==0 and abs(c)>1e-9 and np.allclose(M,c*Uq,atol=1e-8)
    return ok,bad,abs(c)**2
# F2: ccx then cx on two of its qubits
qc=QuantumCircuit(3); qc.h(0); qc.h(1); qc.ccx(0,1,2); qc.cx(1,2)
try: print("F2 ccx;cx(1,2) aps=True:",conv_check(qc,True))
except Exception as e: print("F2 raised",repr(e)[:150])
qc=QuantumCircuit(3); qc.ccz(0,1,2); qc.cz(0,1)
try: print("F2 ccz;cz(0,1) aps=True:",conv_check(qc,True))
except Exception as e: print("F2 raised",repr(e)[:150])
qc=QuantumCircuit(2); qc.h(0); qc.cx(0,1); qc.t(1); qc.cx(1,0)
for aps in [False,True]:
    print("2q circuit aps",aps,conv_check(qc,aps))
qc=QuantumCircuit(3); qc.h(0); qc.cx(0,2); qc.s(2); qc.cz(2,1)
for aps in [False,True]:
    try: print("3q nonadj aps",aps,conv_check(qc,aps))
    except Exception as e: print("raised",repr(e)[:150])
