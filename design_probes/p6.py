import lightworks as lw, numpy as np, sys
import warnings; warnings.filterwarnings("ignore")
from refmodel import *
from p4 import check
def leaf(rng,n,nh,same,nph=2):
    c=lw.Circuit(n); r=Ref(n); log=[f"C({n})"]
    for _ in range(3):
        p,q=map(int,rng.choice(n,2,replace=False)); rf=float(rng.uniform(0.1,0.9))
        c.bs(p,q,rf); r.bs(p,q,rf); log.append(f"bs({p},{q})")
    ins=list(map(int,rng.choice(n,nh,replace=False)))
    outs=ins if same else list(map(int,rng.choice(n,nh,replace=False)))
    for i,o in zip(ins,outs):
        ph=int(rng.integers(0,nph)); c.herald(ph,i,o); r.herald(ph,i,o); log.append(f"herald({ph},{i},{o})")
    return c,r,log
def run(cls,N=200):
    fails=[]
    for t in range(N):
        rng=np.random.default_rng(t)
        n=int(rng.integers(3,6)); p=lw.Circuit(n); rp=Ref(n); log=[f"P({n})"]
        nadds=1 if cls in("single_same","single_diff") else 2
        for a in range(nadds):
            same = cls in ("single_same","two_same") or (cls=="first_diff_second_same" and a==1)
            k=int(rng.integers(2,5)); nh=int(rng.integers(1,k))
            vis=k-nh
            if vis>n: continue
            c,r,l=leaf(rng,k,nh,same)
            m=int(rng.integers(0,n-vis+1))
            log.append(("add",m,l))
            p.add(c,m); rp.add(r,m)
        try: res=check(p,rp)
        except Exception as e: res="EXC "+repr(e)
        if res: fails.append((t,res,log))
    print(cls,len(fails),"/",N)
    for f in fails[:2]: print("   ",f)
for cls in ["single_same","single_diff","two_same","two_diff","first_diff_second_same"]:
    run(cls)
