import lightworks as lw, numpy as np
from lightworks import emulator as em, qubit
import warnings; warnings.filterwarnings("ignore")
# F6 analyzer with photon heralds
try:
    a=em.Analyzer(qubit.CNOT_Heralded())
    r=a.analyze(lw.State([1,0,1,0]))
    print("F6 ok",r.array.sum())
except Exception as e: print("F6 raised",repr(e)[:200])
# analyzer with in!=out herald
c=lw.Circuit(3); c.bs(0); c.bs(1); c.herald(0,0,2)
try:
    r=em.Analyzer(c).analyze(lw.State([1,0])); print("analyzer in!=out ok")
except Exception as e: print("analyzer in!=out raised",repr(e)[:120])
# F7 quick sampler sample fresh
c=lw.Circuit(3); c.bs(0); c.bs(1)
q=em.QuickSampler(c,lw.State([1,0,1]))
try: print("F7 fresh sample",q.sample())
except Exception as e: print("F7 fresh raised",repr(e)[:120])
q.probability_distribution
q.input_state=lw.State([0,0,1])
s=[q.sample() for _ in range(50)]
print("F7 stale n_photons after input change:",set(x.n_photons for x in s))
# C11 analyzer error_rate stickiness
c=lw.Circuit(2); c.bs(0)
a=em.Analyzer(c)
r1=a.analyze(lw.State([1,0]),expected={lw.State([1,0]):lw.State([1,0])})
r2=a.analyze(lw.State([0,1]))
print("C11 sticky error_rate on second result:",hasattr(r2,"error_rate"), getattr(r2,"error_rate",None))
# C11 sampler: heralds not in cache key
c1=lw.Circuit(3); c1.bs(0); c1.bs(1); c1.herald(0,0)
c2=lw.Circuit(3); c2.bs(0); c2.bs(1); c2.herald(0,2)
s=em.Sampler(c1,lw.State([1,0])); p1=dict(s.probability_distribution)
s.circuit=c2; p2=dict(s.probability_distribution)
pf=em.Sampler(c2,lw.State([1,0])).probability_distribution
print("C11 sampler herald change: stale?", p2==p1 and p2!=pf, p2, pf)
# PostSelection mutated in place in QuickSampler
ps=lw.PostSelection(); 
c=lw.Circuit(3); c.bs(0); c.bs(1)
q=em.QuickSampler(c,lw.State([1,0,1]),post_select=ps); pa=dict(q.probability_distribution)
ps.add(0,0); pb=dict(q.probability_distribution)
pfresh=em.QuickSampler(c,lw.State([1,0,1]),post_select=ps).probability_distribution
print("C11 QS post-select in-place mutation stale?", pb==pa, len(pb), len(pfresh))
# C07 Sampler.sample heralds
c=lw.Circuit(3); c.bs(0); c.bs(1); c.herald(0,0)
s=em.Sampler(c,lw.State([1,0]))
xs=[s.sample() for _ in range(30)]
print("C07 Sampler.sample lens",set(len(x) for x in xs),"herald mode values",set(x[0] for x in xs))
q=em.QuickSampler(c,lw.State([1,0])); q.probability_distribution
print("C07 QS.sample lens",set(len(q.sample()) for _ in range(20)))
# C18 annotated state mutability
from lightworks.emulator.state import AnnotatedState
a=AnnotatedState([[0],[1]]); h=hash(a); a[0].append(7); print("C18 annotated mutated via getitem:",a, hash(a)==h)
l=[1,0]; st=lw.State(l); l[0]=5; print("C18 state aliasing ctor list:",st)
