import lightworks as lw, numpy as np
from lightworks.interferometers import Reck, ErrorModel
from lightworks.interferometers.dists import Gaussian, TopHat, Constant
import warnings; warnings.filterwarnings("ignore")
from collections import Counter
rng=np.random.default_rng(0)
res=Counter(); ex={}
def chk(U,tag):
    c=lw.Unitary(U)
    try:
        m=Reck().map(c)
        err=np.abs(m.U-U).max()
        ok=err<1e-8
        spec=m._get_circuit_spec()
        ph=[s.phi for s in spec if type(s).__name__=="PhaseShifter"]
        inrange=all(0<=p<2*np.pi for p in ph)
        adj=all(abs(s.mode_1-s.mode_2)==1 for s in spec if type(s).__name__=="BeamSplitter")
        res[(tag,ok,inrange,adj)]+=1
        if not (ok and inrange and adj): ex.setdefault((tag,ok,inrange,adj),(U.round(3),err,[p for p in ph if not 0<=p<2*np.pi]))
    except Exception as e:
        res[(tag,"EXC",type(e).__name__)]+=1; ex.setdefault((tag,"EXC"),(U.round(3),repr(e),repr(e.__cause__)))
for n in range(2,7):
    chk(np.eye(n,dtype=complex),"identity")
    for _ in range(20):
        chk(lw.random_permutation(n,int(rng.integers(1e6))),"perm")
        chk(lw.random_unitary(n,int(rng.integers(1e6))),"haar")
        # block diagonal
        k=int(rng.integers(1,n))
        B=np.zeros((n,n),dtype=complex); B[:k,:k]=lw.random_unitary(k,int(rng.integers(1e6))); B[k:,k:]=lw.random_unitary(n-k,int(rng.integers(1e6)))
        chk(B,"block")
        P=lw.random_permutation(n,int(rng.integers(1e6))); D=np.diag(np.exp(1j*rng.uniform(0,6.28,n)))
        chk(P@D,"phased-perm"); chk(P@B@lw.random_permutation(n,int(rng.integers(1e6))),"perm-block")
        # near-degenerate: tiny mixing
        eps=10.0**(-rng.integers(6,18))
        c=lw.Circuit(n); c.bs(0,reflectivity=1-eps); 
        chk(P@c.U,"near-perm")
        # real orthogonal / negative entries
        chk(-np.eye(n,dtype=complex),"neg-id")
for k,v in sorted(res.items(),key=str): print(k,v)
for k,v in ex.items(): print(k,v)
