import lightworks as lw, numpy as np, itertools
from lightworks import emulator as em
import warnings; warnings.filterwarnings("ignore")
from refmodel import fock
from collections import Counter
res=Counter(); ex={}
for t in range(150):
    rng=np.random.default_rng(t)
    n=int(rng.integers(3,6)); c=lw.Unitary(lw.random_unitary(n,int(rng.integers(1e6))))
    lossy=rng.random()<0.5
    if lossy:
        for _ in range(int(rng.integers(1,3))): c.loss(int(rng.integers(0,n)),float(rng.uniform(0.1,0.6)))
    nh=int(rng.integers(0,2)); hm=list(map(int,rng.choice(n,nh,replace=False)))
    hv={m:int(rng.integers(0,2)) for m in hm}
    for m in hm: c.herald(hv[m],m)
    k=n-nh; nph=int(rng.integers(1,3))
    ins=[]
    for _ in range(int(rng.integers(1,4))):
        s=[0]*k
        for _ in range(nph): s[int(rng.integers(0,k))]+=1
        if lw.State(s) not in ins: ins.append(lw.State(s))
    ps=lw.PostSelection(); 
    if rng.random()<0.7: ps.add(int(rng.integers(0,k)),tuple(set(map(int,rng.integers(0,3,2)))))
    a=em.Analyzer(c); a.post_selection=ps
    exp={i:lw.State(list(i)) for i in ins}
    try: r=a.analyze(ins,expected=exp)
    except ValueError as e: res["analyzer ValueError"]+=1; continue
    ok=True; perf=0; err=[]
    for i in ins:
        sm=em.Sampler(c,i); pd=sm.probability_distribution
        # heralded outputs
        acc={}
        for st,p in pd.items():
            if any(st[m]!=hv[m] for m in hm): continue
            v=lw.State([st[j] for j in range(n) if j not in hm])
            if ps.validate(v): acc[v]=acc.get(v,0)+p
        for o in r.outputs:
            if abs(r[i,o]-acc.get(o,0))>1e-7: ok=False; ex.setdefault("prob",(t,str(i),str(o),r[i,o],acc.get(o,0),lossy))
        for o in acc:
            if o not in r.outputs and acc[o]>1e-7: ok=False; ex.setdefault("missing",(t,str(o),acc[o]))
        tot=sum(acc.values()); perf+=tot
        err.append(1-acc.get(exp[i],0)/tot if tot>0 else None)
    perf/=len(ins)
    if abs(perf-r.performance)>1e-7: ok=False; ex.setdefault("perf",(t,perf,r.performance))
    if None not in err and abs(np.mean(err)-r.error_rate)>1e-7: ok=False; ex.setdefault("err",(t,np.mean(err),r.error_rate))
    # quick sampler relation (lossless only meaningful too)
    for pc in (True,False):
        try:
            q=em.QuickSampler(c,ins[0],photon_counting=pc,post_select=ps); qd=q.probability_distribution
        except Exception as e:
            qd=None; qe=e
        sm=em.Sampler(c,ins[0]); pd=sm.probability_distribution
        cond={}
        for st,p in pd.items():
            if any(st[m]!=hv[m] for m in hm): continue
            v=[st[j] for j in range(n) if j not in hm]
            if sum(v)!=ins[0].n_photons: continue
            if not pc and max(v)>1: continue
            if ps.validate(lw.State(v)): cond[lw.State(v)]=cond.get(lw.State(v),0)+p
        tot=sum(cond.values())
        if qd is None:
            if tot>1e-7: ok=False; ex.setdefault("qs-raise",(t,repr(qe)[:80],tot))
            continue
        if tot<=1e-9: ok=False; ex.setdefault("qs-should-raise",(t,)); continue
        for s in set(cond)|set(qd):
            if abs(cond.get(s,0)/tot-qd.get(s,0))>1e-6: ok=False; ex.setdefault("qs",(t,pc,str(s),cond.get(s,0)/tot,qd.get(s,0),lossy))
    res["ok" if ok else "BAD"]+=1
print(res); 
for k,v in ex.items(): print(k,v)
