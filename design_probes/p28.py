import lightworks as lw, numpy as np
from lightworks.interferometers import Reck, ErrorModel
from lightworks.interferometers.dists import Gaussian, TopHat, Constant
import warnings; warnings.filterwarnings("ignore")
from collections import Counter
res=Counter(); ex={}
def spec_sig(c): return repr(c._get_circuit_spec())
rng=np.random.default_rng(0)
# record draws by wrapping value()
draws=[]
for cls in (Gaussian,TopHat):
    o=cls.value
    def mk(o):
        def v(self):
            x=o(self); draws.append((type(self).__name__,self._min_value,self._max_value,x)); return x
        return v
    cls.value=mk(o)
for t in range(120):
    n=int(rng.integers(2,7)); c=lw.Unitary(lw.random_unitary(n,int(rng.integers(1e6))))
    if rng.random()<0.5:
        c.herald(int(rng.integers(0,2)),int(rng.integers(0,n)))
    em=ErrorModel()
    k=int(rng.integers(0,4))
    em.bs_reflectivity=[Constant(0.5),Gaussian(0.5,0.02,min_value=0,max_value=1),TopHat(0.45,0.55),Gaussian(0.5,0.3,min_value=0.4,max_value=0.6)][k]
    em.loss=[Constant(0),TopHat(0,0.1),Gaussian(0.05,0.05,min_value=0),Constant(0.1)][int(rng.integers(0,4))]
    em.phase_offset=[Constant(0),Gaussian(0,0.1),TopHat(-0.2,0.2),Constant(0.3)][int(rng.integers(0,4))]
    r=Reck(em); seed=int(rng.integers(1e6))
    try:
        m1=r.map(c,seed=seed); m2=r.map(c,seed=seed); m3=r.map(c,seed=seed+1)
    except Exception as e:
        res["EXC "+type(e).__name__+str(e)[:50]]+=1; continue
    res[("same seed same", spec_sig(m1)==spec_sig(m2))]+=1
    allconst=all(isinstance(d,Constant) for d in (em.bs_reflectivity,em.loss,em.phase_offset))
    if not allconst: res[("diff seed diff",spec_sig(m1)!=spec_sig(m3))]+=1
    sv=np.linalg.svd(m1.U,compute_uv=False); res[("subunitary",bool(sv.max()<=1+1e-9))]+=1
    res[("heralds same",m1.heralds==c.heralds)]+=1
    ph=[s.phi for s in m1._get_circuit_spec() if type(s).__name__=="PhaseShifter"]
    res[("phases in [0,2pi]",all(0<=p<=2*np.pi for p in ph))]+=1
    res[("phases in [0,2pi)",all(0<=p<2*np.pi for p in ph))]+=1
oob=[d for d in draws if not (d[1]<=d[3]<=d[2])]
print("draws",len(draws),"out of bounds",len(oob))
for k,v in sorted(res.items(),key=str): print(k,v)
# two distributions of the same type get different seeds?
em=ErrorModel(); em.bs_reflectivity=TopHat(0.4,0.6); em.loss=TopHat(0.4,0.6); em._set_random_seed(5)
print("same-type dists differ:",em.get_bs_reflectivity()!=em.get_loss())
