import lightworks as lw, numpy as np
import warnings; warnings.filterwarnings("ignore")
from refmodel import *
from p4 import check
def show(c):
    print(" n_modes",c.n_modes,"heralds",c.heralds,"internal",c._internal_modes)
    for s in c._get_circuit_spec(): print("   ",s)
# case A: parent has existing ancilla; add second heralded child after it
def caseA():
    s1=lw.Circuit(3); s1.bs(0,1,0.3); s1.bs(1,2,0.6); s1.herald(1,0,2)
    r1=Ref(3); r1.bs(0,1,0.3); r1.bs(1,2,0.6); r1.herald(1,0,2)
    p=lw.Circuit(3); rp=Ref(3)
    p.add(s1,1); rp.add(r1,1)
    print("A1",check(p,rp)); show(p)
    s2=lw.Circuit(3); s2.bs(0,1,0.2); s2.bs(1,2,0.7); s2.herald(1,2,0)
    r2=Ref(3); r2.bs(0,1,0.2); r2.bs(1,2,0.7); r2.herald(1,2,0)
    p.add(s2,0); rp.add(r2,0)
    print("A2",check(p,rp)); show(p)
caseA()
