import lightworks as lw, numpy as np
from lightworks import emulator as em
import warnings; warnings.filterwarnings("ignore")
rng=np.random.default_rng(1)
bad={}; tot=0
for t in range(300):
    n=int(rng.integers(2,5))
    c=lw.Circuit(n)
    for k in range(5):
        m=int(rng.integers(0,n-1))
        c.bs(m, reflectivity=float(rng.random()))
        if rng.random()<0.5: c.loss(int(rng.integers(0,n)), float(rng.random()*0.8))
    s=[int(rng.integers(0,3)) for _ in range(n)]
    if sum(s)==0: s[0]=1
    if sum(s)>4: continue
    tot+=1
    for b in ["permanent","slos"]:
      for br in [1,0.7]:
        sm=em.Sampler(c, lw.State(s), backend=b, source=em.Source(brightness=br))
        p=sm.probability_distribution
        tp=sum(p.values())
        if abs(tp-1)>1e-6:
            bad.setdefault((b,br),[]).append((round(float(tp),4), c._build().loss_modes))
print(tot,{k:(len(v),v[:3]) for k,v in bad.items()})
