#!/bin/bash
# Runs every registered quick check for several VERIF_SEED / PYTHONHASHSEED values from fresh processes.
# usage: ./sweep.sh "0 1 2" [tier] [props...]
seeds=${1:-"0 1 2"}; tier=${2:-quick}; shift 2 2>/dev/null
cd "$(dirname "$0")"; props=${@:-$(python3 -c "import json;print(' '.join(c['property_id'] for c in json.load(open('MANIFEST.json'))['checks']))")}
cd "$(dirname "$0")"
for p in $props; do for s in $seeds; do
  out=$(VERIF_SEED=$s /venv/bin/python -m lwverif run $p --tier $tier 2>&1); rc=$?
  echo "$p seed=$s rc=$rc $(echo "$out" | grep -c KNOWN-FINDING) known | $(echo "$out" | head -1 | cut -c1-100)"
  if [ $rc -ne 0 ]; then echo "$out" | grep -E "VIOLATION|INCONCLUSIVE|violated" | cut -c1-300; fi
done; done
